#!/usr/bin/env python3
"""(Re)write /verif/seeded/<id>/meta.json from the per-change facts below and the latest detected.txt."""
import json, os, re

FACTS = {
 # id: (author, needs to manifest, first caught by)
 "uniform-pow2-shift": ("sub-agent wave 1 (range sampling)", "a single-value range (Uniform::new(x, x+1) / new_inclusive(x, x)) sampled through a Uniform object; any width; gen_range/sample_single unaffected", "membership (R1)"),
 "single-lt-zone": ("sub-agent wave 1 (range sampling)", "gen_range / sample_single path, a range with an odd number of values, and exactly the one boundary RNG word out of 2^BITS (bias only: every result stays in range)", "complete 8-bit word-space sweep (sweep_unequal_preimages); also fibre walk / span probe"),
 "word-tail-units": ("sub-agent wave 1 (Standard/Fill)", "u16 digits with N % 4 == 3 (48, 112, 176 ... bits): the top digit of every Standard-sampled value is 0", "history refinement (R4); also slice_elementwise (R6)"),
 "fill-via-gen-swallows-error": ("sub-agent wave 1 (Standard/Fill)", "two cooperating edits; an RNG whose try_fill_bytes returns Err (possibly after a partial write): try_fill_slice returns Ok with zero / half-written elements", "history refinement (R4) under injected rng_err / rng_partial_err"),
 "std-word-overread": ("sub-agent wave 1 (free choice)", "a width that is not a multiple of 64 bits AND a second value drawn from the same RNG (or slice fill vs element-wise gen, or a count of bytes consumed)", "slice_elementwise (R6): stream positions differ"),
 "uniform-stale-hi": ("sub-agent wave 1 (free choice)", "a Uniform object, a rejected RNG word followed by an accepted one; result stays in range and first-word acceptance is unchanged", "accepted_word_value (R3b) - the oracle was added because every other check missed this change"),
 "release-swallowed-rng-error": ("sub-agent wave 1 (free choice)", "a build without debug assertions AND an RNG whose try_fill_bytes returns Err", "history refinement (R4) in the rel build (silent in dbg, where the change panics like the original)"),
 "widening-mul-stale-carry": ("sub-agent wave 1 (helpers)", "width > 64 bits, an RNG word with a zero digit above a non-zero one, a wide range (top digit of the range non-zero); N >= 3 to leave the range", "membership (R1) and preimage_bound (R3) at 128..512 bits via extreme words with whole 00 digits"),
 "div-addback-offset": ("sub-agent wave 1 (helpers)", "N >= 4 digits, Uniform::new / new_inclusive on rare 2..N-1-digit ranges where Knuth D's add-back fires at a non-final quotient digit; the rejection threshold z becomes garbage", "no_return (bounded liveness: 1000 x width fresh uniform bytes all rejected)"),
 "halfdiv": ("sub-agent wave 2 (bias only, wide)", "u64 digits with N >= 2, a Uniform object, range size between 2^32 and about 2^40: a wrong ints_to_reject gives some values one accepted word more out of ~2^90", "span probe (fibre_spans_differ) - added because nothing else can count fibres of 2^90 words"),
 "digitzone": ("sub-agent wave 2 (bias only, wide)", "BITS > 128, gen_range / sample_single(_inclusive), a single-digit range size d with 2^DIGIT_BITS mod d != 2^BITS mod d", "span probe (fibre_spans_differ)"),
 "halfspan-add": ("sub-agent wave 2 (signed types)", "debug assertions on, a Uniform constructor, a signed range of exactly 2^(BITS-1) values (high - low == MAX) or the unsigned full range", "panic (R2) in the dbg build"),
 "signed-reject-gate": ("sub-agent wave 2 (signed types)", "a signed type, a range with more than 2^(BITS-1) values, the Uniform object path: ints_to_reject becomes 0 so sample never rejects (in range, biased)", "preimage_bound (R3), span probe, 8-bit sweeps"),
 "reject-cap": ("sub-agent wave 2 (sequences)", "at least 65 consecutive rejected RNG words inside one range-sampling call; the 65th word is then accepted unconditionally (in range, biased)", "accepted_word_value (R3b) under a stuck entropy source held for >= 65 repeats"),
 "fill-chunk-tail": ("sub-agent wave 2 (sequences)", "a slice whose total byte size is an exact non-zero multiple of 4096: the last 4096 bytes are left unwritten while Ok(()) is returned", "history refinement (R4) on fills whose byte size sits at a power-of-two boundary"),
 "fill-retry-skip": ("sub-agent wave 2 (sequences)", "a slice larger than 512 bytes AND a try_fill_bytes error on the 2nd or a later request (at most 3 errors per fill): the failed block stays stale while Ok(()) is returned", "history refinement (R4) with rng_err / rng_partial_err planned for a later request of the fill"),
 "shl-via-rotate": ("sub-agent wave 2 (helpers)", "a non-power-of-two width (24, 40, 96, 136, 192, 320 ...), the gen_range / sample_single path, range.leading_zeros() with a bit set outside BITS-1", "no_return (garbage zone) and 24-bit sweeps / fibre walks (bias)"),
 "add-pairwise-tail-carry": ("sub-agent wave 2 (helpers)", "an unsigned type with odd N >= 3 and a range that straddles the top digit boundary or has exactly 2^((N-1)*digit bits) values", "membership (R1)"),
 "eintr-retry": ("sub-agent wave 3 (faults and sequences)", "three consecutive RNG errors whose raw_os_error() is exactly 4 (EINTR) or 11 (EAGAIN) inside one fill: the retry loop falls through to Ok(()) with stale or partially written contents", "history refinement (R4) under a burst of consecutive rng_err faults carrying an OS-style error code"),
 "chunk-tail": ("sub-agent wave 3 (faults and sequences)", "a slice of more than 256 bytes whose size is not a multiple of 256, an error on a full 256-byte request (not the last one) and a successful next request: the remainder request overwrites the recorded error", "history refinement (R4) with a fault placed by delivered-byte count"),
 "draw-limit": ("sub-agent wave 3 (faults and sequences)", "127 consecutive rejected words in one sampling call on a range that is not a power of two: the 128th word is accepted unconditionally (in range, biased)", "accepted_word_value (R3b) under a stuck entropy source held for >= 127 repeats"),
 "zone-lt": ("sub-agent wave 3 (minimal bias)", "types wider than 16 bits, gen_range / sample_single path, an odd range size: exactly one RNG word out of 2^BITS is wrongly rejected, so one value (at a pseudo-random position) has 2^lz - 1 accepted words instead of 2^lz", "span probe / fibre walk (block sizes differ by one), 24-bit sweeps"),
 "pow2mod-shift": ("sub-agent wave 3 (minimal bias)", "a Uniform object on a type of at least 64 bits with 2^63 < range size < 2^64: 2^BITS mod r is computed as 0, sample never rejects, `low` and z-1 other values get one extra accepted word", "preimage_bound (R3) on 64-bit types (q = 1); span probe at offset 0 on wider types"),
 "wmul-comba": ("sub-agent wave 3 (minimal bias)", "widening_mul rewritten on 64-bit limbs loses a carry when a middle accumulator word is exactly u64::MAX: types wider than 96 bits, range size >= 2^64, a 2^-64 coincidence per product step for random words", "preimage_bound (R3) at 512..8192 bits via extreme words made of whole 00 / FF digits"),
 "divlu-rhat": ("sub-agent wave 3 (evasion)", "u64 digits with N >= 2, a Uniform constructor, and a range size for which a 128-by-64-bit quotient-digit estimate hits an exact 2^32 remainder (about 2^-33 for unstructured sizes; ~0.5% of sizes 2^k +- 2^j, ~1% of sizes made of all-ones digits): ints_to_reject is wrong, fibres differ by one word out of ~2^64 or more", "span probe (fibre_spans_differ) on multi-digit u64 types with run-of-ones / digit-pattern range sizes; about 3 expected detections per quick run, certain in the thorough tier"),
 "comba-spill": ("sub-agent wave 3 (evasion)", "u8 digits with N >= 258 (wider than 2056 bits) and dense operands (all-ones word x near-full-width range): the carry counter of the product-scanning widening_mul overflows", "panic (R2) in the dbg build and membership / preimage_bound in the rel build on BUintD8<320> / BUintD8<1024> (the widest u8-digit instantiations, added to the menu because of this change)"),
 "w4-memo-width": ("sub-agent wave 4 (hidden state)", "Uniform::new_inclusive memoises 2^BITS mod range in a static inside the const-generic function (one entry, shared by every width of a digit type, key without the width): the same small non-power-of-two range (< 2^32) built back to back on two different widths > 128 bits of one type family, then a word at a rejection boundary", "interleaved-tasks mode, collision hunt (order_dependence / schedule_dependence): one type family, related ranges, words aimed at fibre ends"),
 "w4-memo-interleave": ("sub-agent wave 4 (hidden state)", "sample_single_inclusive re-reads a memoised remainder from a static AFTER the RNG call, in the slow path: every single-threaded sequence is correct; needs a second caller with a different small range on the same digit type running while the first one is inside its RNG call, and a first-caller word in the slow path (lo > MAX - range)", "interleaved-tasks mode (schedule_dependence): the task is preempted at the RngCore seam inside the call; the word at the fibre end comes from the aimed-word source"),
 "w4-memo-keypack": ("sub-agent wave 4 (hidden state)", "cache key `range ^ (BITS << 48)` with a gate that admits any 64-bit range: a constructed pair r1 ^ r2 == (W1 ^ W2) << 48 built back to back (accidental collision 2^-64)", "interleaved-tasks mode, collision hunt (order_dependence / schedule_dependence): the related-range mutation 'size XOR (difference of the two widths) at a byte position' produces the colliding pair"),
 "w4-digitzone": ("sub-agent wave 4 (fast paths)", "64-bit digits with N > 2, Uniform object, range < 2^32: a shortcut zone test looks at the top and the lowest digit of `lo` only and rejects a z / 2^128 fraction of INTERIOR words of each block, unevenly over the values", "NOT CAUGHT: the wrongly rejected words are scattered inside the blocks at positions only the modular inverse of the range can aim at, and their number per value cannot be counted from outside (DESIGN 6.6)"),
 "w4-narrowz": ("sub-agent wave 4 (fast paths)", "types of 256 bits and up, Uniform object, range that fits a u64: the sampler draws a u128 (two next_u64 requests) but reuses the stored 2^BITS mod r where 2^128 mod r is needed; wrong unless 2^BITS = 2^128 (mod r)", "span probe at the OBSERVED word size over multi-request attempts (fibre_spans_differ on 128-bit words)"),
 "w4-modzone": ("sub-agent wave 4 (fast paths)", "types of 256 bits and up, gen_range / sample_single, range that fits a u64: `low + v % range` on a u128 word with acceptance `v <= zone` where the classic form needs `<`: one surplus word out of 2^128, value `low` has q + 1 preimages", "stride probe (fibre_strides_differ): modulo structure recognised, accepted steps k counted exactly by bisection over k"),
 "w4-blockfill": ("sub-agent wave 4 (byte paths)", "slice fill in 64 KiB requests with the block/tail split computed from the constant instead of the element stride: integer byte size not dividing 65536 (24, 40, 96, 136, 192, 320 bits ...) and a slice of 64 KiB or more", "history refinement (R4) on boundary-sized fills"),
 "w4-eintr-retry": ("sub-agent wave 4 (byte paths)", "fill retries EINTR/EAGAIN up to 4 attempts and then falls through to Ok(()): a burst of at least 4 consecutive errors with code exactly 4 or 11", "history refinement (R4) under a burst of four consecutive rng_err carrying an OS-style code"),
 "w4-sample-requests": ("sub-agent wave 4 (byte paths)", "Standard for unsigned types in 256-byte requests, last partial block dropped: widths above 2048 bits that are not a multiple of 2048 (2560 bits = BUintD8<320> in the menu)", "history refinement (R4), slice_elementwise (R6), preimage_bound"),
 "w4-c1-divlu": ("sub-agent wave 4 (helpers)", "half-digit long division for u64 digits with `r_hat > HALF_BASE` for `>=`: BUint/BInt with N >= 2, Uniform constructor, range below 2^64 hitting an exact-2^32 partial remainder (2^-32 per step for unstructured sizes; structured sizes such as 2^48 - 2 hit)", "span probe / division hunt (fibre_spans_differ)"),
 "w4-c2-comba": ("sub-agent wave 4 (helpers)", "column-wise widening_mul whose three-digit accumulator drops its carry: u8 digits with N >= 258 and dense operands", "preimage_bound on BUintD8<320> / BUintD8<1024>"),
 "w4-c3-maxdigit": ("sub-agent wave 4 (helpers)", "Knuth D without add-back when the quotient-digit estimate is Digit::MAX: Uniform constructor, N >= 3, a later division step whose true digit is MAX - 1 (never at 24 bits; 1 in 15 000 range sizes at 32 bits, 1 in 600 at 96 bits for u8 digits; 1 in 600 000 for u16 digits)", "division hunt / span probe (fibre_spans_differ); about 2-4 detections per quick run (missed by the first quick run that saw it, before the division-hunt mode existed), certain in the thorough tier"),
 "fill-chunks": ("sub-agent wave 3 (evasion)", "a slice whose byte length exceeds 65536 and is not a multiple of it: chunks_exact_mut leaves the tail unwritten while Ok(()) is returned", "history refinement (R4) on fills sized just above 65536 bytes"),
}

base = "/verif/seeded"
for d in sorted(os.listdir(base)):
    p = os.path.join(base, d)
    if not os.path.isdir(p) or d not in FACTS:
        continue
    det = open(os.path.join(p, "detected.txt")).read() if os.path.exists(os.path.join(p, "detected.txt")) else ""
    classes = []
    for m in re.finditer(r"class=(\S+)", det):
        if m.group(1) not in classes:
            classes.append(m.group(1))
    demo = sorted(f for f in os.listdir(p) if f.endswith(".rs"))[0]
    author, need, caught = FACTS[d]
    rel = " --release" if d == "release-swallowed-rng-error" else ""
    meta = {
        "id": d,
        "property": "C20",
        "written_by": author + " — given only the text of C20 and a scratch worktree; nothing from /verif",
        "breaks": "C20 — random generation stays in range, is unbiased by construction, fills every bit",
        "needs_to_manifest": need,
        "files": {"patch": "patch.diff", "demonstration": demo, "agent_notes": "notes.md", "my_confirmation": "confirm.txt", "check_output": "detected.txt"},
        "confirmed_in_scratch_worktree": {
            "commands": ["git apply patch.diff", "cargo build --offline", "cargo build --offline --features rand",
                         "cargo test --offline --no-fail-fast   (pinned suite)",
                         "cargo test --offline --features rand --lib random   (the repository's own rand tests)",
                         "cp %s tests/ && cargo test --offline --features rand%s --test %s   (with the change: fails; without: passes)" % (demo, rel, demo[:-3])],
            "result": "see confirm.txt: applies, builds both ways, pinned suite 1945 + 224 doctests pass with the change, demonstration fails with the change and passes without it"},
        "detection": {
            "how_run": ("tools/lanes.py: patch applied in a scratch worktree of /repo, both simulator builds rebuilt from it and run with the quick tier's seeds and split; first replay file re-executed on the patched build and on the pristine build" if "lanes.py" in det else "tools/seeded_all.sh quick: git -C /repo apply patch.diff; ./check c20 --tier quick; replay the first file; git -C /repo checkout -- .; replay it again"),
            "caught": "exit=1" in det,
            "first_caught_by": caught,
            "violation_classes_reported": classes,
            "replay_reproduces_on_changed_tree": "changed tree -> exit 1" in det,
            "replay_clean_on_unchanged_tree": "unchanged tree -> exit 0" in det},
    }
    json.dump(meta, open(os.path.join(p, "meta.json"), "w"), indent=1)
    print("%-32s caught=%s %s" % (d, meta["detection"]["caught"], classes))
