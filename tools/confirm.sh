#!/bin/bash
# Confirm one sub-agent change in a scratch worktree: applies; builds with and without `rand`; pinned suite (1945 + 224
# doctests) and the repository's own rand tests (48) pass with it; demonstration fails with it and passes without it.
# usage: confirm.sh <worktree> <change-dir> ; writes <change-dir>/confirm.txt ; leaves the worktree pristine
wt=$1; d=$2; id=$(basename "$d")
export CARGO_NET_OFFLINE=true CARGO_TERM_COLOR=never
cd "$wt" || exit 2
git checkout -q -- . ; git clean -fdq tests
demo=$(ls "$d"/demo_*.rs | head -1); t=$(basename "$demo" .rs)
res() { grep -E "^test result|^error: test failed|error(\[E[0-9]+\])?:" | tr '\n' ' '; }
{
echo "== $id"
if git apply "$d/patch.diff"; then echo "apply: ok"; else echo "apply: FAILED"; fi
cargo build --offline -q 2>&1 | grep -E "^error" | head -3; echo "build(no features): rc=${PIPESTATUS[0]}"
cargo build --offline -q --features rand 2>&1 | grep -E "^error" | head -3; echo "build(rand): rc=${PIPESTATUS[0]}"
echo "pinned suite with change: $(cargo test --workspace --no-fail-fast --offline 2>&1 | res)"
echo "own rand tests with change: $(cargo test --offline --features rand --lib random 2>&1 | res)"
mkdir -p tests; cp "$demo" tests/
echo "demo with change: $(cargo test --offline --features rand --test $t 2>&1 | res)"
git checkout -q -- .
echo "demo without change: $(cargo test --offline --features rand --test $t 2>&1 | res)"
rm -f tests/$t.rs; rmdir tests 2>/dev/null
} > "$d/confirm.txt" 2>&1
cat "$d/confirm.txt"
