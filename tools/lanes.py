#!/usr/bin/env python3
"""Development tool: run the C20 simulator against many patches in parallel lanes, never touching /repo.

Each lane has its own git worktree of /repo (under /tmp/lane<k>/repo) and its own copy of the simulator crate whose
path dependency points at that worktree, so patches can be applied and built side by side. For every patch:
apply -> build dbg + rel -> run both simulators (same seeds and split as ./check) -> re-execute the first replay file
on the patched build (must reproduce) and on the pristine build in /verif/sim/target (must be clean) -> revert.
The summary for <name> goes to <outdir>/<name>.txt in the format of tools/seeded_all.sh.

usage: lanes.py [--lanes 4] [--runs 1000000] [--threads 5] [--tier quick] [--seed 20] [--out /tmp/lanes_out] name=patch.diff ...
The registered checks (MANIFEST.json) do not use this tool; it exists to evaluate seeded changes, own mutants and
controls quickly. /verif/sim/target must hold binaries built from the pristine /repo (run ./setup.sh first).
"""
import json, os, shutil, subprocess, sys, threading, time

ENV = dict(os.environ, CARGO_NET_OFFLINE="true", CARGO_TERM_COLOR="never")


def sh(cmd, cwd=None, timeout=None):
    return subprocess.run(cmd, cwd=cwd, env=ENV, stdout=subprocess.PIPE, stderr=subprocess.STDOUT, text=True, timeout=timeout)


def setup_lane(k):
    d = "/tmp/lane%d" % k
    if not os.path.isdir(d + "/repo"):
        os.makedirs(d, exist_ok=True)
        r = sh(["git", "-C", "/repo", "worktree", "add", "--detach", d + "/repo", "HEAD"])
        if r.returncode != 0:
            raise SystemExit("worktree: " + r.stdout)
    sh(["git", "checkout", "--", "."], cwd=d + "/repo")
    os.makedirs(d + "/sim", exist_ok=True)
    if os.path.isdir(d + "/sim/src"):
        shutil.rmtree(d + "/sim/src")
    shutil.copytree("/verif/sim/src", d + "/sim/src")
    shutil.copy("/verif/sim/Cargo.lock", d + "/sim/Cargo.lock")
    t = open("/verif/sim/Cargo.toml").read().replace('path = "/repo"', 'path = "%s/repo"' % d)
    assert d + "/repo" in t
    open(d + "/sim/Cargo.toml", "w").write(t)
    return d


def build(d):
    procs = [subprocess.Popen(["cargo", "build", "--offline", "--profile", p, "--message-format=short", "--target-dir", d + "/sim/target/t-" + p],
                              cwd=d + "/sim", env=ENV, stdout=subprocess.PIPE, stderr=subprocess.STDOUT, text=True) for p in ("dbg", "rel")]
    ok = True
    for p in procs:
        out, _ = p.communicate()
        ok = ok and p.returncode == 0
    return ok


SEED = "20"


def one(d, name, patch, runs, threads, tier, outdir):
    lines = []
    rep = d + "/replays"
    shutil.rmtree(rep, ignore_errors=True)
    os.makedirs(rep)
    sh(["git", "checkout", "--", "."], cwd=d + "/repo")
    r = sh(["git", "apply", patch], cwd=d + "/repo")
    if r.returncode != 0:
        open(os.path.join(outdir, name + ".txt"), "w").write("patch does not apply: %s\n" % r.stdout[:300])
        return
    if not build(d):
        sh(["git", "checkout", "--", "."], cwd=d + "/repo")
        open(os.path.join(outdir, name + ".txt"), "w").write("build failed\n")
        return
    found, harness, rcs = [], [], []
    env = dict(ENV, VERIF_REPLAY_DIR=rep)
    for i, prof in enumerate(("dbg", "rel")):
        exe = "%s/sim/target/t-%s/%s/sim" % (d, prof, prof)
        out = "%s/part.%s.json" % (d, prof)
        cmd = [exe, "run", "--tier", tier, "--seed", SEED, "--threads", str(threads), "--runs", str(runs), "--from", str(i * runs), "--out", out]
        p = subprocess.run(cmd, env=env, stdout=subprocess.PIPE, stderr=subprocess.STDOUT, text=True)
        rcs.append(p.returncode)
        for l in p.stdout.splitlines():
            if l.startswith("FOUND"):
                found.append("[%s] %s" % (prof, l))
            elif l.startswith("HARNESS-ERROR"):
                harness.append("[%s] %s" % (prof, l))
    exit_code = 1 if found else (2 if harness or any(rc not in (0, 1) for rc in rcs) else 0)
    first = None
    for l in found:
        for tok in l.split():
            if tok.startswith("replay="):
                first = tok[len("replay="):]
                break
        if first:
            break
    rep_mut = rep_clean = "n/a"
    if first:
        prof = json.load(open(first)).get("build", "dbg")
        p = subprocess.run(["%s/sim/target/t-%s/%s/sim" % (d, prof, prof), "replay", first], env=env, stdout=subprocess.PIPE, stderr=subprocess.STDOUT, text=True)
        rep_mut = "exit %d" % p.returncode
        p = subprocess.run(["/verif/sim/target/t-%s/%s/sim" % (prof, prof), "replay", first], env=env, stdout=subprocess.PIPE, stderr=subprocess.STDOUT, text=True)
        rep_clean = "exit %d" % p.returncode
    sh(["git", "checkout", "--", "."], cwd=d + "/repo")
    lines.append("tier=%s runs=2x%d exit=%d   (tools/lanes.py: both simulator builds run directly, same seeds and split as ./check)" % (tier, runs, exit_code))
    for l in found[:8]:
        lines.append(l[:420])
    if not found:
        lines.append("OK nothing reported" if exit_code == 0 else "NO VIOLATION REPORTED")
    for l in harness[:3]:
        lines.append(l[:300])
    lines.append("first replay file re-executed: on the changed tree -> %s (1 = reproduced); on the unchanged tree -> %s (0 = clean)" % (rep_mut, rep_clean))
    open(os.path.join(outdir, name + ".txt"), "w").write("\n".join(lines) + "\n")
    print("== %s: exit=%d classes=%s replay(mut)=%s replay(clean)=%s" % (name, exit_code, sorted(set(l.split("class=")[1].split()[0] for l in found)), rep_mut, rep_clean), flush=True)


def main():
    a = sys.argv[1:]
    def opt(k, dflt):
        if k in a:
            i = a.index(k)
            v = a[i + 1]
            del a[i:i + 2]
            return v
        return dflt
    lanes = int(opt("--lanes", "4"))
    runs = int(opt("--runs", "1000000"))
    threads = int(opt("--threads", "5"))
    tier = opt("--tier", "quick")
    outdir = opt("--out", "/tmp/lanes_out")
    global SEED
    SEED = opt("--seed", "20")
    os.makedirs(outdir, exist_ok=True)
    jobs = [x.split("=", 1) for x in a]
    lock = threading.Lock()
    def worker(k):
        d = setup_lane(k)
        while True:
            with lock:
                if not jobs:
                    return
                name, patch = jobs.pop(0)
            try:
                one(d, name, os.path.abspath(patch), runs, threads, tier, outdir)
            except Exception as e:
                print("== %s: tool error %s" % (name, e), flush=True)
    ts = [threading.Thread(target=worker, args=(k,)) for k in range(lanes)]
    t0 = time.time()
    for t in ts:
        t.start()
    for t in ts:
        t.join()
    print("done in %.0fs" % (time.time() - t0))


if __name__ == "__main__":
    main()
