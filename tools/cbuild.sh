#!/bin/bash
# build the sim crate in one profile, showing only diagnostics that belong to the sim crate itself
# usage: cbuild.sh <profile> ; exit code = cargo's
cd /verif/sim || exit 2
export CARGO_NET_OFFLINE=true
out=$(cargo build --profile "$1" --target-dir "target/t-$1" --message-format=short 2>&1)
rc=$?
echo "$out" | grep -E "^src/|^error|panicked|could not compile" | grep -v "^/repo" | head -${2:-60}
exit $rc
