#!/usr/bin/env python3
"""Cross-check the simulator's reference big-integer helpers (sim/src/refint.rs) against Python integers."""
import sys

def le(h):
    return int.from_bytes(bytes.fromhex(h), "little")

def sle(h):
    b = bytes.fromhex(h)
    return int.from_bytes(b, "little", signed=True)

def cmp(a, b):
    return (a > b) - (a < b)

n = bad = 0
for line in sys.stdin:
    f = line.split()
    if not f:
        continue
    n += 1
    op = f[0]
    ok = True
    if op in ("add", "sub"):
        w = len(f[1]) // 2
        a, b, r = le(f[1]), le(f[2]), le(f[3])
        exp = (a + b if op == "add" else a - b) % (1 << (8 * w))
        ok = r == exp
    elif op == "addk":
        w = len(f[1]) // 2
        ok = le(f[3]) == (le(f[1]) + int(f[2])) % (1 << (8 * w))
    elif op == "ucmp":
        ok = int(f[3]) == cmp(le(f[1]), le(f[2]))
    elif op == "scmp":
        ok = int(f[3]) == cmp(sle(f[1]), sle(f[2]))
    elif op == "bitlen":
        ok = int(f[2]) == le(f[1]).bit_length()
    elif op == "pow2div":
        wb, r, q = int(f[1]), le(f[2]), int(f[3])
        exp = (1 << (8 * wb)) // r
        ok = (q == exp) if exp <= (1 << 20) else (q == -1)
    elif op == "pow2divsmall":
        w, d, j = int(f[1]), int(f[2]), int(f[3])
        exp = (((1 << (8 * w)) // d) % (1 << (8 * w)) - j) % (1 << (8 * w))
        ok = le(f[4]) == exp
    elif op == "rsize":
        w = len(f[1]) // 2
        exp = (le(f[2]) - le(f[1]) + 1) % (1 << (8 * w))
        ok = (f[3] == "full") if exp == 0 else (f[3] != "full" and le(f[3]) == exp)
    elif op == "divfloor":
        ok = le(f[3]) == le(f[1]) // le(f[2])
    elif op == "mul":
        ok = le(f[3]) == le(f[1]) * le(f[2]) and len(f[3]) == len(f[1]) + len(f[2])
    elif op == "fibrestart":
        w, k, r = int(f[1]), le(f[2]), le(f[3])
        exp = -((-(k << (8 * w))) // r)
        ok = (f[4] == "none") if exp >= (1 << (8 * w)) else (f[4] != "none" and le(f[4]) == exp)
    elif op == "midpoint":
        ok = le(f[3]) == (le(f[1]) + le(f[2])) // 2
    else:
        ok = False
    if not ok:
        bad += 1
        if bad <= 10:
            print("MISMATCH", line.strip())
print("refint cross-check: %d vectors, %d mismatches" % (n, bad))
sys.exit(1 if bad or n == 0 else 0)
