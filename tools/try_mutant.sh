#!/bin/bash
# apply a patch to /repo, run the check (evidence and replays diverted to a scratch dir), revert. For development only.
# usage: try_mutant.sh <patch.diff> [tier]
set -u
patch="$1"; tier="${2:-quick}"
scratch=$(mktemp -d /tmp/mut.XXXXXX)
cd /repo || exit 2
if [ -n "$(git status --porcelain --untracked-files=no)" ]; then echo "/repo not clean"; exit 2; fi
git apply "$patch" || { echo "patch does not apply"; exit 2; }
cd /verif
VERIF_EVIDENCE_DIR=$scratch/ev VERIF_REPLAY_DIR=$scratch/replays ./check c20 --tier "$tier" > $scratch/out.txt 2>&1
rc=$?
grep -E "VIOLATION|KNOWN|HARNESS|OK property|class=" $scratch/out.txt | cut -c1-700 | head -30
echo "rc=$rc scratch=$scratch"
# replay the first file on the mutated tree
first=$(grep -m1 -o "replay=[^ ]*" $scratch/out.txt | cut -d= -f2)
if [ -n "$first" ]; then
  echo "--- replay $first (mutated tree)"; ./check c20 --replay "$first" | tail -4
fi
git -C /repo checkout -- .
if [ -n "$first" ]; then
  echo "--- replay (pristine tree)"; ./check c20 --replay "$first" | tail -2
fi
# leave no simulator binary behind that was built from the patched tree (the replay above rebuilds one profile only)
( cd /verif && ./setup.sh > /dev/null 2>&1 )
