#!/bin/bash
# development helper: apply a patch to /repo, build the dbg simulator, run N seeded runs (no sweeps), revert.
# usage: quick_try.sh <patch.diff> [runs] [extra sim args...]
patch="$1"; runs="${2:-300000}"; shift; shift
cd /repo || exit 2
if [ -n "$(git status --porcelain --untracked-files=no)" ]; then echo "/repo not clean"; exit 2; fi
git apply "$patch" || { echo "patch does not apply"; exit 2; }
cd /verif/sim
CARGO_NET_OFFLINE=true cargo build --offline --profile dbg --target-dir target/t-dbg --message-format=short 2>&1 | grep -E "^error|error\[|Finished" | head -5
d=$(mktemp -d /tmp/qt.XXXXXX)
VERIF_REPLAY_DIR=$d target/t-dbg/dbg/sim run --tier smoke --runs "$runs" --no-sweeps --out $d/o.json "$@" 2>&1 | grep -E "DONE|FOUND|HARNESS|NOTE" | cut -c1-600 | head -14
python3 - $d/o.json <<'P'
import json,sys
d=json.load(open(sys.argv[1])); c=d['counters']
print({k:c[k] for k in c if 'stride' in k or 'narrow' in k or 'abandon' in k or 'inapplicable' in k or 'implausible' in k})
P
git -C /repo checkout -- .
rm -rf $d
# the dbg binary in sim/target is now built from the patched tree: rebuild before using it for anything else
( cd /verif && ./setup.sh > /dev/null 2>&1 )
