#!/bin/bash
# Determinism proof on a large sample: the same (seed, run index) executed in separate processes, at several
# worker counts, twice each, must give identical per-run fingerprints and draw counts. Also compares the two builds
# (informational: on a tree where no overflow check fires they coincide).
# usage: determinism.sh [runs-per-seed] [seeds...]
cd /verif/sim || exit 2
N=${1:-20000}; shift
SEEDS=${@:-"20 1 7 123456789 18446744073709551615"}
tmp=$(mktemp -d /tmp/det.XXXXXX)
bad=0; total=0
for s in $SEEDS; do
  for b in dbg rel; do
    ref=""
    for t in 1 4 16; do for rep in a b; do
      f=$tmp/$b.$s.$t.$rep
      ./target/t-$b/$b/sim fingerprints --each --seed $s --from 0 --to $N --threads $t > $f &
    done; done
    wait
    for t in 1 4 16; do for rep in a b; do
      f=$tmp/$b.$s.$t.$rep
      if [ -z "$ref" ]; then ref=$f; else
        total=$((total+1))
        if ! cmp -s $ref $f; then bad=$((bad+1)); echo "MISMATCH build=$b seed=$s threads=$t rep=$rep"; diff $ref $f | head -3; fi
      fi
    done; done
  done
  if cmp -s $tmp/dbg.$s.1.a $tmp/rel.$s.1.a; then echo "seed $s: dbg and rel fingerprints identical over $N runs"; else echo "seed $s: dbg and rel fingerprints DIFFER (informational)"; fi
done
echo "determinism: $total comparisons of $N-run logs, $bad mismatches"
rm -rf $tmp
[ $bad -eq 0 ]
