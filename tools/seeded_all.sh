#!/bin/bash
# Run the C20 check against every seeded change under /verif/seeded (and, optionally, a directory of extra .diff files):
# apply to /repo, run, record what was reported, revert. Development tool; never leaves /repo modified.
# Also runs /verif/mutants-own/*.diff (must be caught) and /verif/controls/*/patch.diff (must stay silent).
# usage: seeded_all.sh [tier] [extra-diff-dir]
tier="${1:-quick}"; extra="${2:-}"
cd /repo || exit 2
if [ -n "$(git status --porcelain --untracked-files=no)" ]; then echo "/repo not clean"; exit 2; fi
run_one() { # name patch outfile
  local name="$1" patch="$2" out="$3"
  local scratch=$(mktemp -d /tmp/seeded.XXXXXX)
  git -C /repo apply "$patch" || { echo "$name: patch does not apply"; return; }
  ( cd /verif && VERIF_EVIDENCE_DIR=$scratch/ev VERIF_REPLAY_DIR=$scratch/replays ./check c20 --tier "$tier" > $scratch/out.txt 2>&1; echo "exit=$?" >> $scratch/out.txt )
  local first=$(grep -m1 -o "replay=[^ ]*" $scratch/out.txt | cut -d= -f2)
  local rep_mut="n/a" rep_clean="n/a"
  if [ -n "$first" ]; then
    ( cd /verif && ./check c20 --replay "$first" > $scratch/r1.txt 2>&1 ); rep_mut="exit $?"
  fi
  git -C /repo checkout -- .
  if [ -n "$first" ]; then
    ( cd /verif && ./check c20 --replay "$first" > $scratch/r2.txt 2>&1 ); rep_clean="exit $?"
  fi
  {
    echo "tier=$tier $(grep -m1 '^exit=' $scratch/out.txt)"
    grep -A1 "^VIOLATION" $scratch/out.txt | grep -v "^--" | cut -c1-400 | head -8
    grep -E "^OK property|^HARNESS-ERROR" $scratch/out.txt | head -3
    echo "first replay file re-executed: on the changed tree -> $rep_mut (1 = reproduced); on the unchanged tree -> $rep_clean (0 = clean)"
  } > "$out"
  echo "== $name"; cat "$out"
  rm -rf $scratch
}
only="${ONLY:-.}"   # ONLY=<regex> restricts the batch to matching names
for d in /verif/seeded/*/; do
  n=$(basename $d)
  echo "$n" | grep -Eq "$only" || continue
  run_one "$n" "$d/patch.diff" "$d/detected.txt"
done
for f in /verif/mutants-own/*.diff; do
  n=$(basename $f .diff); echo "$n" | grep -Eq "$only" || continue; mkdir -p /verif/mutants-own/detected; run_one "$n" "$f" "/verif/mutants-own/detected/$n.txt"
done
for d in /verif/controls/*/; do
  n=$(basename $d); echo "$n" | grep -Eq "$only" || continue; run_one "$n" "$d/patch.diff" "$d/detected.txt"
done
if [ -n "$extra" ]; then
  mkdir -p /tmp/extra_detect
  for f in $extra/*.diff; do n=$(basename $f .diff); run_one "$n" "$f" "/tmp/extra_detect/$n.txt"; done
fi
git -C /repo status --short | head -3
# leave no simulator binary behind that was built from a patched tree
( cd /verif && ./setup.sh > /dev/null 2>&1 )
