//! The menu of bnum instantiations, each behind one object-safe trait with a byte-level interface.
//! Everything below `BTy` calls the REAL rand 0.8 glue and the REAL bnum code from /repo.

use bnum::random::Slice;
use bnum::{BInt, BIntD16, BIntD32, BIntD8, BUint, BUintD16, BUintD32, BUintD8};
use rand::distributions::uniform::{SampleUniform, UniformSampler};
use rand::distributions::{Distribution, Uniform};
use rand::{Fill, Rng, RngCore};

/// how a `Uniform` object is constructed
#[derive(Clone, Copy, Debug, PartialEq, Eq)]
pub enum Ctor {
    /// Uniform::new / new_inclusive with by-value bounds
    Val,
    /// Uniform::new / new_inclusive with by-reference bounds
    Ref,
    /// Uniform::from(low..high) / from(low..=high)
    FromRange,
    /// <T::Sampler as UniformSampler>::new / new_inclusive directly
    Sampler,
}

/// which public path fills a slice
#[derive(Clone, Copy, Debug, PartialEq, Eq)]
pub enum FillVia {
    /// bnum::random::try_fill_slice
    TryFillSlice,
    /// rand::Fill::try_fill on bnum::random::Slice<T>
    FillTrait,
    /// rand::Rng::try_fill(&mut Slice<T>)
    RngTryFill,
    /// rand::Rng::fill(&mut Slice<T>)  (panics on error)
    RngFill,
}

/// static view of one bnum integer type
pub trait BTy: Copy + PartialOrd + SampleUniform + 'static {
    const BYTES: usize;
    const SIGNED: bool;
    const DIGIT_BYTES: usize;
    fn from_le(b: &[u8]) -> Self;
    fn to_le_vec(&self) -> Vec<u8>;
    /// the low 64 bits of the bit pattern (no allocation; used by the sweep kernel)
    fn low_u64(&self) -> u64;
    fn gen<R: RngCore + ?Sized>(rng: &mut R) -> Self;
    fn fill<R: RngCore + ?Sized>(v: &mut [Self], via: FillVia, rng: &mut R) -> Result<(), ()>;
}

macro_rules! impl_bty {
    ($U:ident, $I:ident, $D:ty) => {
        impl<const N: usize> BTy for $U<N> {
            const BYTES: usize = N * core::mem::size_of::<$D>();
            const SIGNED: bool = false;
            const DIGIT_BYTES: usize = core::mem::size_of::<$D>();
            fn from_le(b: &[u8]) -> Self {
                assert_eq!(b.len(), <Self as BTy>::BYTES);
                let mut d = [0 as $D; N];
                const DB: usize = core::mem::size_of::<$D>();
                for i in 0..N {
                    let mut w = [0u8; DB];
                    w.copy_from_slice(&b[i * DB..(i + 1) * DB]);
                    d[i] = <$D>::from_le_bytes(w);
                }
                $U::from_digits(d)
            }
            fn to_le_vec(&self) -> Vec<u8> {
                let mut out = Vec::with_capacity(<Self as BTy>::BYTES);
                for d in self.digits().iter() {
                    out.extend_from_slice(&d.to_le_bytes());
                }
                out
            }
            fn low_u64(&self) -> u64 {
                const DB: usize = core::mem::size_of::<$D>();
                let mut out = 0u64;
                let mut i = 0;
                while i < N && i * DB < 8 {
                    out |= (self.digits()[i] as u64) << (8 * DB * i);
                    i += 1;
                }
                out
            }
            fn gen<R: RngCore + ?Sized>(rng: &mut R) -> Self {
                rng.gen()
            }
            fn fill<R: RngCore + ?Sized>(v: &mut [Self], via: FillVia, rng: &mut R) -> Result<(), ()> {
                fill_impl(v, via, rng)
            }
        }
        impl<const N: usize> BTy for $I<N> {
            const BYTES: usize = N * core::mem::size_of::<$D>();
            const SIGNED: bool = true;
            const DIGIT_BYTES: usize = core::mem::size_of::<$D>();
            fn from_le(b: &[u8]) -> Self {
                $I::from_bits(<$U<N> as BTy>::from_le(b))
            }
            fn to_le_vec(&self) -> Vec<u8> {
                self.to_bits().to_le_vec()
            }
            fn low_u64(&self) -> u64 {
                self.to_bits().low_u64()
            }
            fn gen<R: RngCore + ?Sized>(rng: &mut R) -> Self {
                rng.gen()
            }
            fn fill<R: RngCore + ?Sized>(v: &mut [Self], via: FillVia, rng: &mut R) -> Result<(), ()> {
                fill_impl(v, via, rng)
            }
        }
    };
}

fn fill_impl<T, R: RngCore + ?Sized>(v: &mut [T], via: FillVia, rng: &mut R) -> Result<(), ()>
where
    Slice<T>: Fill,
{
    match via {
        FillVia::TryFillSlice => bnum::random::try_fill_slice(v, rng).map_err(|_| ()),
        other => {
            // the same cast bnum's own try_fill_slice performs (Slice is repr(transparent) over [T])
            let s: &mut Slice<T> = unsafe { &mut *(v as *mut [T] as *mut Slice<T>) };
            match other {
                FillVia::FillTrait => Fill::try_fill(s, rng).map_err(|_| ()),
                FillVia::RngTryFill => rng.try_fill(s).map_err(|_| ()),
                FillVia::RngFill => {
                    rng.fill(s);
                    Ok(())
                }
                FillVia::TryFillSlice => unreachable!(),
            }
        }
    }
}

impl_bty!(BUintD8, BIntD8, u8);
impl_bty!(BUintD16, BIntD16, u16);
impl_bty!(BUintD32, BIntD32, u32);
impl_bty!(BUint, BInt, u64);

/// object-safe handle on one instantiation
pub trait TyObj: Sync + Send {
    fn name(&self) -> &'static str;
    fn bytes(&self) -> usize;
    fn signed(&self) -> bool;
    fn digit_bytes(&self) -> usize;
    fn gen(&self, rng: &mut crate::simrng::SimRng, dynamic: bool) -> Vec<u8>;
    fn gen_range(&self, low: &[u8], high: &[u8], inclusive: bool, rng: &mut crate::simrng::SimRng, dynamic: bool) -> Vec<u8>;
    fn sample_single(&self, low: &[u8], high: &[u8], inclusive: bool, by_ref: bool, rng: &mut crate::simrng::SimRng, dynamic: bool) -> Vec<u8>;
    fn uniform(&self, low: &[u8], high: &[u8], inclusive: bool, ctor: Ctor) -> Box<dyn Sampler>;
    /// lean loop for complete word-space sweeps: for every word in from..to arm the RNG with it, make one call of
    /// the entry point, and hand (word, low 64 bits of the result, requests made, length of the first request) to
    /// `sink`; stops early when `sink` returns false. Err((word, budget_exhausted)) if a call panicked.
    #[allow(clippy::too_many_arguments)]
    fn sweep_kernel(&self, low: &[u8], high_api: &[u8], entry: crate::sweep::Entry, from: u64, to: u64, rng: &mut crate::simrng::SimRng, sink: &mut dyn FnMut(u64, u64, u32, u32) -> bool) -> Result<(), (u64, bool)>;
    /// one call of a sweep entry point (constructor included) on an ordinary scripted RNG; the result is dropped
    fn one_call(&self, low: &[u8], high_api: &[u8], entry: crate::sweep::Entry, rng: &mut crate::simrng::SimRng);
    /// fill a slice of `len` elements (initialised from `init`), returning (result, element bytes)
    /// `front` guard elements before and 2 after the filled sub-slice must keep their initial contents; the third
    /// component says whether they did
    fn fill(&self, len: usize, init: u8, front: usize, via: FillVia, rng: &mut crate::simrng::SimRng, dynamic: bool) -> (Result<(), ()>, Vec<Vec<u8>>, bool);
}

pub trait Sampler {
    fn sample(&self, rng: &mut crate::simrng::SimRng, dynamic: bool) -> Vec<u8>;
    /// samplers are Copy; a copy taken before a caught panic must behave identically afterwards
    fn dup(&self) -> Box<dyn Sampler>;
}

enum SamplerImpl<T: BTy> {
    Uni(Uniform<T>),
    Raw(T::Sampler),
}

impl<T: BTy> Sampler for SamplerImpl<T>
where
    T::Sampler: Clone,
{
    fn sample(&self, rng: &mut crate::simrng::SimRng, dynamic: bool) -> Vec<u8> {
        fn go<T: BTy, R: RngCore + ?Sized>(s: &SamplerImpl<T>, rng: &mut R) -> T {
            match s {
                SamplerImpl::Uni(u) => u.sample(rng),
                SamplerImpl::Raw(r) => r.sample(rng),
            }
        }
        let v = if dynamic {
            let r: &mut dyn RngCore = rng;
            go(self, r)
        } else {
            go(self, rng)
        };
        v.to_le_vec()
    }
    fn dup(&self) -> Box<dyn Sampler> {
        Box::new(match self {
            SamplerImpl::Uni(u) => SamplerImpl::Uni(u.clone()),
            SamplerImpl::Raw(r) => SamplerImpl::<T>::Raw(r.clone()),
        })
    }
}

pub struct TyImpl<T: BTy> {
    name: &'static str,
    _p: core::marker::PhantomData<fn() -> T>,
}

impl<T: BTy> TyObj for TyImpl<T>
where
    T::Sampler: Clone,
{
    fn name(&self) -> &'static str {
        self.name
    }
    fn bytes(&self) -> usize {
        T::BYTES
    }
    fn signed(&self) -> bool {
        T::SIGNED
    }
    fn digit_bytes(&self) -> usize {
        T::DIGIT_BYTES
    }
    fn gen(&self, rng: &mut crate::simrng::SimRng, dynamic: bool) -> Vec<u8> {
        let v: T = if dynamic {
            let r: &mut dyn RngCore = rng;
            T::gen(r)
        } else {
            T::gen(rng)
        };
        v.to_le_vec()
    }
    fn gen_range(&self, low: &[u8], high: &[u8], inclusive: bool, rng: &mut crate::simrng::SimRng, dynamic: bool) -> Vec<u8> {
        fn go<T: BTy, R: RngCore + ?Sized>(low: T, high: T, inclusive: bool, rng: &mut R) -> T {
            if inclusive {
                rng.gen_range(low..=high)
            } else {
                rng.gen_range(low..high)
            }
        }
        let (l, h) = (T::from_le(low), T::from_le(high));
        let v = if dynamic {
            let r: &mut dyn RngCore = rng;
            go(l, h, inclusive, r)
        } else {
            go(l, h, inclusive, rng)
        };
        v.to_le_vec()
    }
    fn sample_single(&self, low: &[u8], high: &[u8], inclusive: bool, by_ref: bool, rng: &mut crate::simrng::SimRng, dynamic: bool) -> Vec<u8> {
        fn go<T: BTy, R: RngCore + ?Sized>(l: T, h: T, inclusive: bool, by_ref: bool, rng: &mut R) -> T {
            match (inclusive, by_ref) {
                (false, false) => <T::Sampler as UniformSampler>::sample_single(l, h, rng),
                (false, true) => <T::Sampler as UniformSampler>::sample_single(&l, &h, rng),
                (true, false) => <T::Sampler as UniformSampler>::sample_single_inclusive(l, h, rng),
                (true, true) => <T::Sampler as UniformSampler>::sample_single_inclusive(&l, &h, rng),
            }
        }
        let (l, h) = (T::from_le(low), T::from_le(high));
        let v = if dynamic {
            let r: &mut dyn RngCore = rng;
            go(l, h, inclusive, by_ref, r)
        } else {
            go(l, h, inclusive, by_ref, rng)
        };
        v.to_le_vec()
    }
    fn uniform(&self, low: &[u8], high: &[u8], inclusive: bool, ctor: Ctor) -> Box<dyn Sampler> {
        let (l, h) = (T::from_le(low), T::from_le(high));
        let s: SamplerImpl<T> = match (ctor, inclusive) {
            (Ctor::Val, false) => SamplerImpl::Uni(Uniform::new(l, h)),
            (Ctor::Val, true) => SamplerImpl::Uni(Uniform::new_inclusive(l, h)),
            (Ctor::Ref, false) => SamplerImpl::Uni(Uniform::new(&l, &h)),
            (Ctor::Ref, true) => SamplerImpl::Uni(Uniform::new_inclusive(&l, &h)),
            (Ctor::FromRange, false) => SamplerImpl::Uni(Uniform::from(l..h)),
            (Ctor::FromRange, true) => SamplerImpl::Uni(Uniform::from(l..=h)),
            (Ctor::Sampler, false) => SamplerImpl::Raw(<T::Sampler as UniformSampler>::new(l, h)),
            (Ctor::Sampler, true) => SamplerImpl::Raw(<T::Sampler as UniformSampler>::new_inclusive(&l, &h)),
        };
        Box::new(s)
    }
    fn sweep_kernel(&self, low: &[u8], high_api: &[u8], entry: crate::sweep::Entry, from: u64, to: u64, rng: &mut crate::simrng::SimRng, sink: &mut dyn FnMut(u64, u64, u32, u32) -> bool) -> Result<(), (u64, bool)> {
        use crate::sweep::Entry;
        use std::panic::{catch_unwind, AssertUnwindSafe};
        let (l, h) = (T::from_le(low), T::from_le(high_api));
        let sampler: Option<Uniform<T>> = match catch_unwind(AssertUnwindSafe(|| match entry {
            Entry::UniInc => Some(Uniform::new_inclusive(l, h)),
            Entry::UniExc => Some(Uniform::new(l, h)),
            _ => None,
        })) {
            Ok(s) => s,
            Err(_) => return Err((from, false)),
        };
        for word in from..to {
            rng.sweep_arm(word as u32);
            let res = catch_unwind(AssertUnwindSafe(|| match entry {
                Entry::UniInc | Entry::UniExc => sampler.as_ref().unwrap().sample(&mut *rng),
                Entry::SingleInc => <T::Sampler as UniformSampler>::sample_single_inclusive(l, h, &mut *rng),
                Entry::SingleExc => <T::Sampler as UniformSampler>::sample_single(l, h, &mut *rng),
                Entry::GenRangeInc => rng.gen_range(l..=h),
            }));
            match res {
                Ok(v) => {
                    let st = rng.sweep.as_ref().unwrap();
                    let (rq, fl) = (st.requests, st.first_len);
                    if !sink(word, v.low_u64(), rq, fl) {
                        return Ok(());
                    }
                }
                Err(payload) => return Err((word, payload.is::<crate::simrng::BudgetExceeded>())),
            }
        }
        Ok(())
    }
    fn one_call(&self, low: &[u8], high_api: &[u8], entry: crate::sweep::Entry, rng: &mut crate::simrng::SimRng) {
        use crate::sweep::Entry;
        let (l, h) = (T::from_le(low), T::from_le(high_api));
        let _ = match entry {
            Entry::UniInc => Uniform::new_inclusive(l, h).sample(rng),
            Entry::UniExc => Uniform::new(l, h).sample(rng),
            Entry::SingleInc => <T::Sampler as UniformSampler>::sample_single_inclusive(l, h, rng),
            Entry::SingleExc => <T::Sampler as UniformSampler>::sample_single(l, h, rng),
            Entry::GenRangeInc => rng.gen_range(l..=h),
        };
    }
    fn fill(&self, len: usize, init: u8, front: usize, via: FillVia, rng: &mut crate::simrng::SimRng, dynamic: bool) -> (Result<(), ()>, Vec<Vec<u8>>, bool) {
        let initv = T::from_le(&vec![init; T::BYTES]);
        let initb = initv.to_le_vec();
        let mut v = vec![initv; front + len + 2];
        let r = {
            let sub = &mut v[front..front + len];
            if dynamic {
                let r: &mut dyn RngCore = rng;
                T::fill(sub, via, r)
            } else {
                T::fill(sub, via, rng)
            }
        };
        let guards_intact = v[..front].iter().chain(v[front + len..].iter()).all(|x| x.to_le_vec() == initb);
        (r, v[front..front + len].iter().map(|x| x.to_le_vec()).collect(), guards_intact)
    }
}

macro_rules! menu {
    ($( $U:ident, $I:ident : $($n:literal),* ; )*) => {
        pub fn menu() -> Vec<Box<dyn TyObj>> {
            let mut v: Vec<Box<dyn TyObj>> = Vec::new();
            $( $(
                v.push(Box::new(TyImpl::<$U<$n>> { name: concat!(stringify!($U), "<", stringify!($n), ">"), _p: core::marker::PhantomData }));
                v.push(Box::new(TyImpl::<$I<$n>> { name: concat!(stringify!($I), "<", stringify!($n), ">"), _p: core::marker::PhantomData }));
            )* )*
            v
        }
    };
}

// widths 8..8192 bits for every digit type (the widest instantiation of each digit type is 8192 bits), including
// 24, 40, 96, 136, 192, 320 and other widths that are not powers of two
menu! {
    BUintD8, BIntD8 : 1, 2, 3, 4, 5, 8, 16, 17, 40, 320, 1024;
    BUintD16, BIntD16 : 1, 2, 3, 6, 12, 20, 512;
    BUintD32, BIntD32 : 1, 2, 3, 6, 10, 16, 256;
    BUint, BInt : 1, 2, 3, 5, 8, 64, 128;
}

/// the menu as a process-wide constant (the interleaved-tasks executor looks types up by name from any thread)
pub fn global_menu() -> &'static [Box<dyn TyObj>] {
    static MENU: std::sync::OnceLock<Vec<Box<dyn TyObj>>> = std::sync::OnceLock::new();
    MENU.get_or_init(menu)
}

pub fn by_name<'a>(menu: &'a [Box<dyn TyObj>], name: &str) -> Option<&'a dyn TyObj> {
    menu.iter().find(|t| t.name() == name).map(|b| &**b)
}
