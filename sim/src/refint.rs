//! Reference big-integer helpers for the oracles: fixed-width little-endian byte vectors, written for
//! obviousness. No bnum arithmetic is used on the oracle side. Cross-checked against Python integers by
//! `sim refint-selftest` (see setup_cmd).

use std::cmp::Ordering;

pub fn is_zero(a: &[u8]) -> bool {
    a.iter().all(|&x| x == 0)
}

/// unsigned compare of equal-width LE byte strings
pub fn ucmp(a: &[u8], b: &[u8]) -> Ordering {
    assert_eq!(a.len(), b.len());
    for i in (0..a.len()).rev() {
        if a[i] != b[i] {
            return a[i].cmp(&b[i]);
        }
    }
    Ordering::Equal
}

/// two's-complement compare of equal-width LE byte strings
pub fn scmp(a: &[u8], b: &[u8]) -> Ordering {
    assert_eq!(a.len(), b.len());
    let n = a.len();
    let sa = a[n - 1] & 0x80 != 0;
    let sb = b[n - 1] & 0x80 != 0;
    match (sa, sb) {
        (true, false) => Ordering::Less,
        (false, true) => Ordering::Greater,
        _ => ucmp(a, b),
    }
}

pub fn cmp(signed: bool, a: &[u8], b: &[u8]) -> Ordering {
    if signed {
        scmp(a, b)
    } else {
        ucmp(a, b)
    }
}

/// a + b mod 2^W
pub fn add(a: &[u8], b: &[u8]) -> Vec<u8> {
    assert_eq!(a.len(), b.len());
    let mut out = vec![0u8; a.len()];
    let mut c = 0u16;
    for i in 0..a.len() {
        let s = a[i] as u16 + b[i] as u16 + c;
        out[i] = s as u8;
        c = s >> 8;
    }
    out
}

/// a - b mod 2^W
pub fn sub(a: &[u8], b: &[u8]) -> Vec<u8> {
    assert_eq!(a.len(), b.len());
    let mut out = vec![0u8; a.len()];
    let mut br = 0i16;
    for i in 0..a.len() {
        let mut d = a[i] as i16 - b[i] as i16 - br;
        if d < 0 {
            d += 256;
            br = 1;
        } else {
            br = 0;
        }
        out[i] = d as u8;
    }
    out
}

/// a + k mod 2^W for a small signed k
pub fn add_small(a: &[u8], k: i64) -> Vec<u8> {
    let mut kb = vec![if k < 0 { 0xFF } else { 0 }; a.len()];
    let le = k.to_le_bytes();
    for i in 0..a.len().min(8) {
        kb[i] = le[i];
    }
    add(a, &kb)
}

pub fn from_u64(v: u64, width: usize) -> Vec<u8> {
    let mut out = vec![0u8; width];
    let le = v.to_le_bytes();
    for i in 0..width.min(8) {
        out[i] = le[i];
    }
    out
}

/// value as u64 if it fits
pub fn to_u64(a: &[u8]) -> Option<u64> {
    let mut le = [0u8; 8];
    for (i, &x) in a.iter().enumerate() {
        if i < 8 {
            le[i] = x;
        } else if x != 0 {
            return None;
        }
    }
    Some(u64::from_le_bytes(le))
}

pub fn bit_len(a: &[u8]) -> usize {
    for i in (0..a.len()).rev() {
        if a[i] != 0 {
            return i * 8 + (8 - a[i].leading_zeros() as usize);
        }
    }
    0
}

pub fn shl1(a: &mut [u8]) {
    let mut c = 0u8;
    for x in a.iter_mut() {
        let n = *x >> 7;
        *x = (*x << 1) | c;
        c = n;
    }
}

/// range size r = high - low + 1 mod 2^W; `None` means the full range (r = 2^W)
pub fn range_size(low: &[u8], high: &[u8]) -> Option<Vec<u8>> {
    let r = add_small(&sub(high, low), 1);
    if is_zero(&r) {
        None
    } else {
        Some(r)
    }
}

/// floor(2^(8*word_bytes) / r) if it is <= cap, else None. r > 0, any width.
pub fn pow2_div(word_bytes: usize, r: &[u8], cap: u64) -> Option<u64> {
    let l = bit_len(r);
    assert!(l > 0);
    let wbits = word_bytes * 8;
    if l > wbits + 1 {
        return Some(0);
    }
    // numerator 2^wbits has wbits+1 bits. After feeding the top l bits (1 followed by l-1 zeros) the
    // remainder is 2^(l-1) <= r with no subtraction possible before (2^(l-2) < r). Continue from there.
    let steps_done = l; // bits consumed
    let total = wbits + 1;
    let remaining = total - steps_done; // zeros still to shift in, after handling the current remainder
    if remaining > 63 {
        return None;
    }
    let width = r.len().max(word_bytes) + 2;
    let mut rr = vec![0u8; width];
    rr[..r.len()].copy_from_slice(r);
    let mut rem = vec![0u8; width];
    rem[(l - 1) / 8] = 1 << ((l - 1) % 8);
    let mut q: u64 = 0;
    // process the bit that completed 2^(l-1)
    if ucmp(&rem, &rr) != Ordering::Less {
        rem = sub(&rem, &rr);
        q = 1;
    }
    for _ in 0..remaining {
        shl1(&mut rem);
        q <<= 1;
        if ucmp(&rem, &rr) != Ordering::Less {
            rem = sub(&rem, &rr);
            q |= 1;
        }
        if q > cap.saturating_mul(2) && q > (1 << 40) {
            return None;
        }
    }
    if q <= cap {
        Some(q)
    } else {
        None
    }
}

/// floor(2^(8*width) / d) - j  as a width-byte value, for small d >= 2 (d = 1 gives 2^W - j mod 2^W)
pub fn pow2_div_small(width: usize, d: u64, j: u64) -> Vec<u8> {
    assert!(d >= 1);
    // long division of the (width+1)-byte numeral 1 00..00 by d, most significant byte first
    let mut out = vec![0u8; width + 1];
    let mut rem: u128 = 0;
    for i in (0..=width).rev() {
        let cur = (rem << 8) | if i == width { 1 } else { 0 };
        out[i] = (cur / d as u128) as u8;
        rem = cur % d as u128;
    }
    out.truncate(width); // mod 2^W (only matters for d = 1)
    add_small(&out, -(j as i64))
}

/// sign- or zero-extend / truncate an LE value to `width` bytes
pub fn resize(a: &[u8], width: usize, signed: bool) -> Vec<u8> {
    let ext = if signed && !a.is_empty() && a[a.len() - 1] & 0x80 != 0 { 0xFF } else { 0 };
    let mut out = vec![ext; width];
    let n = a.len().min(width);
    out[..n].copy_from_slice(&a[..n]);
    out
}

pub fn min_value(width: usize, signed: bool) -> Vec<u8> {
    let mut v = vec![0u8; width];
    if signed {
        v[width - 1] = 0x80;
    }
    v
}

pub fn max_value(width: usize, signed: bool) -> Vec<u8> {
    let mut v = vec![0xFFu8; width];
    if signed {
        v[width - 1] = 0x7F;
    }
    v
}

/// low <= x <= high in the given order
pub fn in_range(signed: bool, low: &[u8], high: &[u8], x: &[u8]) -> bool {
    cmp(signed, low, x) != Ordering::Greater && cmp(signed, x, high) != Ordering::Greater
}

/// vectors for the Python cross-check: one line per case, hex operands are little-endian byte strings
pub fn selftest_lines(seed: u64, n: usize) -> Vec<String> {
    use crate::json::hex;
    use crate::prng::Prng;
    let mut p = Prng::new(seed);
    let mut out = Vec::new();
    for i in 0..n {
        let width = [1usize, 2, 3, 4, 5, 8, 12, 16, 17, 40, 64, 128][p.below(12) as usize];
        let shape = |p: &mut Prng| -> Vec<u8> {
            let mut v = p.bytes(width);
            match p.below(6) {
                0 => v.iter_mut().for_each(|x| *x = 0),
                1 => v.iter_mut().for_each(|x| *x = 0xFF),
                2 => {
                    let k = p.below(width as u64) as usize;
                    for x in v[k..].iter_mut() {
                        *x = 0
                    }
                }
                3 => {
                    let k = p.below(width as u64) as usize;
                    for x in v[k..].iter_mut() {
                        *x = 0xFF
                    }
                }
                _ => {}
            }
            v
        };
        let a = shape(&mut p);
        let b = shape(&mut p);
        let k = p.range(0, 40) as i64 - 20;
        out.push(format!("add {} {} {}", hex(&a), hex(&b), hex(&add(&a, &b))));
        out.push(format!("sub {} {} {}", hex(&a), hex(&b), hex(&sub(&a, &b))));
        out.push(format!("addk {} {} {}", hex(&a), k, hex(&add_small(&a, k))));
        out.push(format!("ucmp {} {} {}", hex(&a), hex(&b), ucmp(&a, &b) as i8));
        out.push(format!("scmp {} {} {}", hex(&a), hex(&b), scmp(&a, &b) as i8));
        out.push(format!("bitlen {} {}", hex(&a), bit_len(&a)));
        if !is_zero(&a) {
            let wb = [width, width, width + 1, width.max(2) - 1][p.below(4) as usize].max(1);
            let q = pow2_div(wb, &a, 1 << 20);
            out.push(format!("pow2div {} {} {}", wb, hex(&a), q.map(|x| x as i128).unwrap_or(-1)));
        }
        let d = p.range(1, 9);
        let j = p.range(0, 5);
        out.push(format!("pow2divsmall {} {} {} {}", width, d, j, hex(&pow2_div_small(width, d, j))));
        match range_size(&a, &b) {
            Some(r) => out.push(format!("rsize {} {} {}", hex(&a), hex(&b), hex(&r))),
            None => out.push(format!("rsize {} {} full", hex(&a), hex(&b))),
        }
        if !is_zero(&b) {
            out.push(format!("divfloor {} {} {}", hex(&a), hex(&b), hex(&div_floor(&a, &b))));
        }
        out.push(format!("mul {} {} {}", hex(&a), hex(&b), hex(&mul(&a, &b))));
        if !is_zero(&b) {
            // k <= r
            let k = if ucmp(&a, &b) == Ordering::Greater { sub(&a, &b).iter().zip(b.iter()).map(|(x, y)| x & y).collect::<Vec<u8>>() } else { a.clone() };
            if ucmp(&k, &b) != Ordering::Greater {
                match fibre_start(&k, &b, width) {
                    Some(f) => out.push(format!("fibrestart {} {} {} {}", width, hex(&k), hex(&b), hex(&f))),
                    None => out.push(format!("fibrestart {} {} {} none", width, hex(&k), hex(&b))),
                }
            }
        }
        if ucmp(&a, &b) != Ordering::Greater {
            out.push(format!("midpoint {} {} {}", hex(&a), hex(&b), hex(&midpoint(&a, &b))));
        }
        let _ = i;
    }
    out
}

/// a >> 1 (unsigned)
pub fn shr1(a: &mut [u8]) {
    let mut c = 0u8;
    for x in a.iter_mut().rev() {
        let n = *x & 1;
        *x = (*x >> 1) | (c << 7);
        c = n;
    }
}

/// floor(num / den) for unsigned LE byte strings of any lengths (den > 0); result has num.len() bytes.
/// Binary long division (shift the remainder left by one bit, bring down a bit, subtract if possible) on 64-bit
/// limbs, in place; cross-checked against Python integers by `sim refint-selftest`.
pub fn div_floor(num: &[u8], den: &[u8]) -> Vec<u8> {
    assert!(!is_zero(den));
    let nl = (num.len().max(den.len()) + 1 + 7) / 8;
    let to_limbs = |b: &[u8]| -> Vec<u64> {
        let mut v = vec![0u64; nl];
        for (i, x) in b.iter().enumerate() {
            v[i / 8] |= (*x as u64) << (8 * (i % 8));
        }
        v
    };
    let d = to_limbs(den);
    let mut rem = vec![0u64; nl];
    let mut q = vec![0u8; num.len()];
    for bit in (0..num.len() * 8).rev() {
        // rem = rem << 1 | bit
        let mut c = ((num[bit / 8] >> (bit % 8)) & 1) as u64;
        for x in rem.iter_mut() {
            let n = *x >> 63;
            *x = (*x << 1) | c;
            c = n;
        }
        // rem >= d ?
        let mut ge = true;
        for i in (0..nl).rev() {
            if rem[i] != d[i] {
                ge = rem[i] > d[i];
                break;
            }
        }
        if ge {
            let mut br = 0u64;
            for i in 0..nl {
                let (t, b1) = rem[i].overflowing_sub(d[i]);
                let (t, b2) = t.overflowing_sub(br);
                rem[i] = t;
                br = (b1 | b2) as u64;
            }
            q[bit / 8] |= 1 << (bit % 8);
        }
    }
    q
}

/// a * b, exact: a.len() + b.len() bytes
pub fn mul(a: &[u8], b: &[u8]) -> Vec<u8> {
    let mut out = vec![0u8; a.len() + b.len()];
    for (i, &x) in a.iter().enumerate() {
        if x == 0 {
            continue;
        }
        let mut c = 0u32;
        for (j, &y) in b.iter().enumerate() {
            let t = out[i + j] as u32 + x as u32 * y as u32 + c;
            out[i + j] = t as u8;
            c = t >> 8;
        }
        let mut k = i + b.len();
        while c > 0 {
            let t = out[k] as u32 + c;
            out[k] = t as u8;
            c = t >> 8;
            k += 1;
        }
    }
    out
}

/// ceil(k * 2^(8*w) / r) as a w-byte value, for k <= r (k = r gives 2^(8w), returned as None)
pub fn fibre_start(k: &[u8], r: &[u8], w: usize) -> Option<Vec<u8>> {
    // numerator = k * 2^(8w) + (r - 1)
    let mut num = vec![0u8; 2 * w + 1];
    num[w..w + k.len().min(w + 1)].copy_from_slice(&k[..k.len().min(w + 1)]);
    let mut rm1 = vec![0u8; 2 * w + 1];
    rm1[..r.len()].copy_from_slice(r);
    let rm1 = add_small(&rm1, -1);
    let num = add(&num, &rm1);
    let q = div_floor(&num, r);
    if q[w..].iter().any(|&b| b != 0) {
        None
    } else {
        Some(q[..w].to_vec())
    }
}

/// (a + b) / 2 without overflow, a <= b
pub fn midpoint(a: &[u8], b: &[u8]) -> Vec<u8> {
    let mut d = sub(b, a);
    shr1(&mut d);
    add(a, &d)
}
