//! Interleaved-tasks mode: several logical callers ("tasks"), each with its own type, its own ops and its own scripted
//! RNG, executed (A) one after the other, (B) interleaved — every crossing of the RngCore seam and every start of a
//! call is a scheduling point at which the run's schedule (part of the RunSpec, hence of the seed) names the task
//! that proceeds — and (C) one after the other in reverse order. The tasks are real threads, but exactly one of them
//! runs at any time: a baton is handed over at the scheduling points and nowhere else, so the interleaving is a
//! pure function of the schedule and replays exactly.
//!
//! Oracle (history check): since each task's RNG answers are fixed by its own script, every task must produce the
//! same sequence of outcomes under all three schedules. A difference means a result depends on something other
//! than the call's arguments and the RNG words of that call — state hidden in the library (a cache, a static
//! scratch area, a thread-local) that another caller disturbed — so accepted words do not map onto the range by a
//! fixed function. On the pinned tree bnum has no such state (DESIGN §1), so this mode is expected to be silent; it
//! exists to notice a change that introduces some.

use crate::exec::{self, Counters, RunResult, Violation};
use crate::json::hex;
use crate::prng::Fp;
use crate::refint;
use crate::simrng::{Method, Resp, SimRng};
use crate::spec::{OpKind, RunSpec, Task};
use crate::types::{by_name, TyObj};
use std::collections::BTreeSet;
use std::sync::{Arc, Condvar, Mutex};

struct GateState {
    current: usize,
    alive: Vec<bool>,
    sched: Vec<u8>,
    pos: usize,
    trace: Fp,
    switches: u64,
    /// preemptions at the RngCore seam, i.e. in the middle of a call of a bnum entry point
    mid_call: u64,
    points: u64,
}

pub struct Gate {
    m: Mutex<GateState>,
    cv: Condvar,
}

impl GateState {
    /// who runs next: the schedule's choice among the runnable tasks, or — once the schedule is used up — the task
    /// that holds the baton if it is still alive, else the lowest runnable one
    fn pick(&mut self, at_finish: bool) -> Option<usize> {
        let runnable: Vec<usize> = (0..self.alive.len()).filter(|&i| self.alive[i]).collect();
        if runnable.is_empty() {
            return None;
        }
        let next = if self.pos < self.sched.len() {
            let c = self.sched[self.pos] as usize % runnable.len();
            self.pos += 1;
            runnable[c]
        } else if self.alive[self.current] {
            self.current
        } else {
            runnable[0]
        };
        self.points += 1;
        if next != self.current && !at_finish {
            // a task was suspended in the middle of its work (between two of its calls, or inside a call at the seam)
            self.switches += 1;
        }
        self.trace.u(next as u64);
        Some(next)
    }
}

impl Gate {
    pub fn new(n: usize, sched: Vec<u8>) -> Gate {
        let mut st = GateState { current: 0, alive: vec![true; n], sched, pos: 0, trace: Fp::new(), switches: 0, mid_call: 0, points: 0 };
        let first = st.pick(true).unwrap_or(0);
        st.current = first;
        st.switches = 0;
        Gate { m: Mutex::new(st), cv: Condvar::new() }
    }

    /// block until this task holds the baton
    pub fn start(&self, me: usize) {
        let mut st = self.m.lock().unwrap();
        while st.current != me {
            st = self.cv.wait(st).unwrap();
        }
    }

    /// a scheduling point: hand the baton to whichever task the schedule names (possibly this one) and wait for it
    pub fn yield_point(&self, me: usize, inside_call: bool) {
        let mut st = self.m.lock().unwrap();
        debug_assert_eq!(st.current, me);
        if let Some(next) = st.pick(false) {
            if next != me && inside_call {
                st.mid_call += 1;
            }
            st.current = next;
        }
        if st.current != me {
            self.cv.notify_all();
            while st.current != me {
                st = self.cv.wait(st).unwrap();
            }
        }
    }

    /// this task is done: pass the baton on for good
    pub fn finish(&self, me: usize) {
        let mut st = self.m.lock().unwrap();
        st.alive[me] = false;
        if st.current == me {
            if let Some(next) = st.pick(true) {
                st.current = next;
            }
        }
        self.cv.notify_all();
    }

    fn summary(&self) -> (u64, u64, u64, u64) {
        let st = self.m.lock().unwrap();
        (st.trace.0, st.switches, st.points, st.mid_call)
    }
}

/// passes the baton on even if the task's thread unwinds outside a guarded call (harness bug): no deadlock
struct Finisher<'a>(&'a Gate, usize);
impl Drop for Finisher<'_> {
    fn drop(&mut self) {
        self.0.finish(self.1);
    }
}

#[derive(Clone, Debug, PartialEq, Eq)]
pub enum Out {
    Value(Vec<u8>),
    FillOk(Vec<Vec<u8>>),
    FillErr,
    Panicked(u64),
    CtorPanicked,
}

fn out_str(o: &Out) -> String {
    match o {
        Out::Value(v) => format!("value {}", hex(v)),
        Out::FillOk(e) => format!("Ok, {} element(s): {}", e.len(), e.iter().take(4).map(|x| hex(x)).collect::<Vec<_>>().join(" ")),
        Out::FillErr => "Err".into(),
        Out::Panicked(c) => format!("panic (class {})", c),
        Out::CtorPanicked => "constructor panicked".into(),
    }
}

pub struct TaskResult {
    /// (op index, call index, outcome)
    pub outcomes: Vec<(usize, usize, Out)>,
    pub violations: Vec<Violation>,
    pub counters: Counters,
    pub calls: u64,
    pub draws: u64,
    pub log: Vec<String>,
}

fn task_seed(spec: &RunSpec, ti: usize) -> u64 {
    crate::prng::mix(spec.fresh_seed, 0x7A5C_0000 + ti as u64)
}

/// execute one task's ops on its own scripted RNG; with a gate, every call start and every seam crossing yields
fn exec_task(spec: &RunSpec, ti: usize, task: &Task, ty: &dyn TyObj, gate: Option<Arc<Gate>>, want_log: bool) -> TaskResult {
    let mut rng = SimRng::new(task_seed(spec, ti), spec.infallible);
    rng.err_code = spec.err_code;
    if let Some(g) = &gate {
        rng.gate = Some((g.clone(), ti));
    }
    let mut res = TaskResult { outcomes: Vec::new(), violations: Vec::new(), counters: Counters::new(), calls: 0, draws: 0, log: Vec::new() };
    let width = ty.bytes();
    let signed = ty.signed();
    let yield_here = |g: &Option<Arc<Gate>>| {
        if let Some(g) = g {
            g.yield_point(ti, false);
        }
    };
    for (oi, op) in task.ops.iter().enumerate() {
        // violations are reported with a run-wide op number: task index in the high part
        let oid = ti * 1000 + oi;
        match &op.kind {
            OpKind::Gen => {
                for (ci, plan) in op.calls.iter().enumerate() {
                    yield_here(&gate);
                    res.calls += 1;
                    let st = rng.begin_call_vol(plan, width);
                    let r = exec::guarded(|| ty.gen(&mut rng, op.dynamic));
                    let evs = &rng.events[st..];
                    exec::check_panic(&r, evs, oid, ci, &mut res.violations, &mut res.counters);
                    if let Ok(v) = &r {
                        // R4 here too: a run of this mode is the only kind in which several types share one process history
                        let delivered: Vec<(Method, &[u8])> = evs.iter().filter_map(|e| if let Resp::Ok(b) = &e.resp { Some((e.method, &b[..])) } else { None }).collect();
                        if !exec::refines(v, &delivered) {
                            res.violations.push(Violation { class: "refinement", op: oid, call: ci, detail: format!("task {} ({}): gen() returned {} but the RNG delivered [{}]", ti, ty.name(), hex(v), delivered.iter().map(|d| hex(d.1)).collect::<Vec<_>>().join(" ")) });
                        }
                    }
                    res.outcomes.push((oi, ci, match r {
                        Ok(v) => Out::Value(v),
                        Err(pc) => Out::Panicked(exec::outcome_class::<()>(&Err(pc))),
                    }));
                }
            }
            OpKind::Fill { len, init, front, via } => {
                for (ci, plan) in op.calls.iter().enumerate() {
                    yield_here(&gate);
                    res.calls += 1;
                    let st = rng.begin_call_vol(plan, width * (*len).max(1));
                    let r = exec::guarded(|| ty.fill(*len, *init, *front, *via, &mut rng, op.dynamic));
                    let evs = &rng.events[st..];
                    exec::check_panic(&r, evs, oid, ci, &mut res.violations, &mut res.counters);
                    if let Ok((Ok(()), elems, intact)) = &r {
                        let flat: Vec<u8> = elems.iter().flatten().copied().collect();
                        let delivered: Vec<(Method, &[u8])> = evs.iter().filter_map(|e| if let Resp::Ok(b) = &e.resp { Some((e.method, &b[..])) } else { None }).collect();
                        if !exec::refines(&flat, &delivered) {
                            res.violations.push(Violation { class: "refinement", op: oid, call: ci, detail: format!("task {} ({}): fill of {} element(s) ({} bytes) returned Ok, but its bytes are not the bytes the RNG delivered during the call ({} request(s), {} bytes delivered)", ti, ty.name(), len, flat.len(), evs.len(), delivered.iter().map(|d| d.1.len()).sum::<usize>()) });
                        }
                        if !*intact {
                            res.violations.push(Violation { class: "out_of_bounds_write", op: oid, call: ci, detail: format!("task {} ({}): fill of a {}-element sub-slice changed an element outside the sub-slice", ti, ty.name(), len) });
                        }
                    }
                    res.outcomes.push((oi, ci, match r {
                        Ok((Ok(()), elems, _)) => Out::FillOk(elems),
                        Ok((Err(()), _, _)) => Out::FillErr,
                        Err(pc) => Out::Panicked(exec::outcome_class::<()>(&Err(pc))),
                    }));
                }
            }
            OpKind::GenRange { low, high, inclusive } | OpKind::Single { low, high, inclusive, .. } | OpKind::Uniform { low, high, inclusive, .. } => {
                let high_incl = if *inclusive { high.clone() } else { refint::add_small(high, -1) };
                let mut sampler = None;
                if let OpKind::Uniform { ctor, .. } = &op.kind {
                    yield_here(&gate);
                    match exec::guarded(|| ty.uniform(low, high, *inclusive, *ctor)) {
                        Ok(s) => sampler = Some(s),
                        Err(pc) => {
                            res.violations.push(Violation { class: "panic", op: oid, call: 0, detail: format!("task {} ({}): constructing the sampler for [{} , {}] panicked: {:?}", ti, ty.name(), hex(low), hex(high), pc) });
                            res.outcomes.push((oi, 0, Out::CtorPanicked));
                            continue;
                        }
                    }
                }
                for (ci, plan) in op.calls.iter().enumerate() {
                    yield_here(&gate);
                    res.calls += 1;
                    let backup = sampler.as_ref().map(|s| s.dup());
                    let st = rng.begin_call_vol(plan, width);
                    let r = match &op.kind {
                        OpKind::GenRange { .. } => exec::guarded(|| ty.gen_range(low, high, *inclusive, &mut rng, op.dynamic)),
                        OpKind::Single { by_ref, .. } => exec::guarded(|| ty.sample_single(low, high, *inclusive, *by_ref, &mut rng, op.dynamic)),
                        _ => {
                            let s = sampler.as_ref().unwrap();
                            exec::guarded(|| s.sample(&mut rng, op.dynamic))
                        }
                    };
                    let evs = &rng.events[st..];
                    exec::check_panic(&r, evs, oid, ci, &mut res.violations, &mut res.counters);
                    if r.is_err() && sampler.is_some() {
                        sampler = backup;
                    }
                    if let Ok(v) = &r {
                        if v.len() != width || !refint::in_range(signed, low, &high_incl, v) {
                            res.violations.push(Violation { class: "membership", op: oid, call: ci, detail: format!("task {} ({}): {} returned {} outside [{}, {}]; RNG words: [{}]", ti, ty.name(), op.kind_name(), hex(v), hex(low), hex(&high_incl), evs.iter().filter_map(|e| if let Resp::Ok(b) = &e.resp { Some(hex(b)) } else { None }).collect::<Vec<_>>().join(" ")) });
                        }
                    }
                    if want_log {
                        res.log.push(format!("task {} op {} call {} {}: {} draw(s) -> {:?}", ti, oi, ci, op.kind_name(), evs.len(), r.as_ref().map(|v| hex(v))));
                    }
                    res.outcomes.push((oi, ci, match r {
                        Ok(v) => Out::Value(v),
                        Err(pc) => Out::Panicked(exec::outcome_class::<()>(&Err(pc))),
                    }));
                }
            }
            _ => {}
        }
    }
    res.draws = rng.events_total;
    res
}

/// Fixed calls executed before each of the three passes on every type involved, so that each pass starts from the
/// same hidden state whatever earlier runs (or the previous pass) left behind in a last-value memo, and a replay in
/// a fresh process sees what the exploring process saw. Results are ignored.
fn prologue(tys: &[&dyn TyObj]) {
    let mut seen: Vec<&str> = Vec::new();
    for ty in tys {
        if seen.contains(&ty.name()) {
            continue;
        }
        seen.push(ty.name());
        let w = ty.bytes();
        let mut low = vec![0u8; w];
        low[0] = 0x10;
        let mut high = low.clone();
        high[0] = 0x7B;
        high[w / 2] |= 0x35;
        let mut rng = SimRng::new(0xC1EA_0000, false);
        let _ = exec::guarded(|| {
            let s = ty.uniform(&low, &high, true, crate::types::Ctor::Val);
            rng.begin_call_vol(&[], w);
            s.sample(&mut rng, false);
            rng.begin_call_vol(&[], w);
            ty.sample_single(&low, &high, true, false, &mut rng, false);
            rng.begin_call_vol(&[], w);
            ty.gen_range(&low, &high, false, &mut rng, false);
            rng.begin_call_vol(&[], w);
            ty.gen(&mut rng, false);
        });
    }
}

type Job = Box<dyn FnOnce() -> (usize, Option<TaskResult>) + Send>;

/// Three long-lived threads per exploring worker (creating threads for every run serialises all workers on the
/// process's memory-map lock). They idle on a channel; exactly one of them runs at any time during a run.
struct TaskPool {
    tx: Vec<std::sync::mpsc::Sender<Job>>,
    rx: std::sync::mpsc::Receiver<(usize, Option<TaskResult>)>,
}

thread_local! {
    static POOL: std::cell::RefCell<Option<TaskPool>> = const { std::cell::RefCell::new(None) };
}

const MAX_TASKS: usize = 4;

fn make_pool() -> TaskPool {
    let (rtx, rrx) = std::sync::mpsc::channel::<(usize, Option<TaskResult>)>();
    let mut tx = Vec::new();
    for _ in 0..MAX_TASKS {
        let (jtx, jrx) = std::sync::mpsc::channel::<Job>();
        let rtx = rtx.clone();
        std::thread::spawn(move || {
            while let Ok(job) = jrx.recv() {
                let r = job();
                if rtx.send(r).is_err() {
                    break;
                }
            }
        });
        tx.push(jtx);
    }
    TaskPool { tx, rx: rrx }
}

fn run_interleaved(spec: &RunSpec, gate: &Arc<Gate>) -> Vec<Option<TaskResult>> {
    let n = spec.tasks.len().min(MAX_TASKS);
    let shared = Arc::new(spec.clone());
    POOL.with(|p| {
        let mut p = p.borrow_mut();
        let pool = p.get_or_insert_with(make_pool);
        for ti in 0..n {
            let g = gate.clone();
            let sp = shared.clone();
            let job: Job = Box::new(move || {
                let r = std::panic::catch_unwind(std::panic::AssertUnwindSafe(|| {
                    let _fin = Finisher(&g, ti);
                    g.start(ti);
                    let ty = by_name(crate::types::global_menu(), &sp.tasks[ti].ty).expect("task type");
                    exec_task(&sp, ti, &sp.tasks[ti], ty, Some(g.clone()), false)
                }));
                (ti, r.ok())
            });
            pool.tx[ti].send(job).expect("task thread");
        }
        let mut out: Vec<Option<TaskResult>> = (0..spec.tasks.len()).map(|_| None).collect();
        for _ in 0..n {
            let (ti, r) = pool.rx.recv().expect("task thread result");
            out[ti] = r;
        }
        out
    })
}

pub fn run_tasks(spec: &RunSpec, want_log: bool) -> RunResult {
    let menu = crate::types::global_menu();
    let n = spec.tasks.len();
    let tys: Vec<&dyn TyObj> = spec.tasks.iter().map(|t| by_name(menu, &t.ty).expect("task type")).collect();
    let mut viol: Vec<Violation> = Vec::new();
    let mut counters = Counters::new();
    let mut log = Vec::new();
    let mut fp = Fp::new();
    let mut calls = 0u64;
    let mut draws = 0u64;

    // (A) one after the other
    prologue(&tys);
    let a: Vec<TaskResult> = (0..n).map(|ti| exec_task(spec, ti, &spec.tasks[ti], tys[ti], None, want_log)).collect();
    // (B) interleaved under the schedule, on this worker's persistent task threads
    prologue(&tys);
    let gate = Arc::new(Gate::new(n, spec.schedule.clone()));
    let b: Vec<Option<TaskResult>> = run_interleaved(spec, &gate);
    // (C) one after the other, last task first
    let mut c: Vec<Option<TaskResult>> = (0..n).map(|_| None).collect();
    prologue(&tys);
    for ti in (0..n).rev() {
        c[ti] = Some(exec_task(spec, ti, &spec.tasks[ti], tys[ti], None, false));
    }
    let (trace, switches, points, mid_call) = gate.summary();

    for ti in 0..n {
        let ra = &a[ti];
        calls += ra.calls * 3;
        draws += ra.draws * 3;
        for (k, v) in ra.counters.iter() {
            *counters.entry(k).or_insert(0) += v;
        }
        viol.extend(ra.violations.iter().cloned());
        log.extend(ra.log.iter().cloned());
        fp.u(ti as u64);
        for (oi, ci, o) in ra.outcomes.iter() {
            fp.u((*oi as u64) << 16 | *ci as u64);
            match o {
                Out::Value(v) => fp.b(v),
                Out::FillOk(e) => e.iter().for_each(|x| fp.b(x)),
                Out::FillErr => fp.u(0xE44),
                Out::Panicked(c) => fp.u(0xE0 + c),
                Out::CtorPanicked => fp.u(0xEC),
            }
        }
        for (label, class, other) in [("interleaved with the other task(s) at the seam", "schedule_dependence", &b[ti]), ("run after the other task(s) instead of before", "order_dependence", &c[ti])] {
            let Some(rb) = other else {
                viol.push(Violation { class: "panic", op: ti * 1000, call: 0, detail: format!("task {} died outside a guarded call when {}", ti, label) });
                continue;
            };
            // violations seen only under the other schedule count as well (same classes as in pass A)
            for v in rb.violations.iter() {
                if !viol.iter().any(|x| x.class == v.class && x.op == v.op && x.call == v.call) {
                    viol.push(v.clone());
                }
            }
            let diff = ra.outcomes.iter().zip(rb.outcomes.iter()).find(|(x, y)| x != y);
            if let Some(((oi, ci, oa), (_, _, ob))) = diff {
                let op = &spec.tasks[ti].ops[*oi];
                viol.push(Violation {
                    class,
                    op: ti * 1000 + oi,
                    call: *ci,
                    detail: format!(
                        "task {} ({}), op {} ({}) call {}: with identical arguments and identical RNG answers the call gives [{}] when the task runs alone first, but [{}] when {} ({} tasks: {}; {} scheduling points, {} context switches) — the result depends on state outside the call",
                        ti, spec.tasks[ti].ty, oi, op.kind_name(), ci, out_str(oa), out_str(ob), label, n, spec.tasks.iter().map(|t| t.ty.as_str()).collect::<Vec<_>>().join(", "), points, switches
                    ),
                });
            } else if ra.outcomes.len() != rb.outcomes.len() {
                viol.push(Violation { class, op: ti * 1000, call: 0, detail: format!("task {} made {} calls alone but {} when {}", ti, ra.outcomes.len(), rb.outcomes.len(), label) });
            }
        }
    }
    fp.u(trace);
    *counters.entry("op_tasks_run").or_insert(0) += 1;
    *counters.entry("tasks_scheduling_points").or_insert(0) += points;
    *counters.entry("tasks_context_switches").or_insert(0) += switches;
    *counters.entry("tasks_preemptions_inside_a_call").or_insert(0) += mid_call;
    if !viol.iter().any(|v| v.class == "schedule_dependence" || v.class == "order_dependence") {
        *counters.entry("probe_tasks_schedule_independent").or_insert(0) += 1;
    }
    if mid_call > 0 {
        *counters.entry("probe_tasks_interleaved_mid_call").or_insert(0) += 1;
    }
    let mut distinct_types: Vec<&str> = spec.tasks.iter().map(|t| t.ty.as_str()).collect();
    distinct_types.sort_unstable();
    distinct_types.dedup();
    if distinct_types.len() > 1 {
        *counters.entry("probe_tasks_of_different_types").or_insert(0) += 1;
    }
    if want_log {
        log.push(format!("tasks: {} scheduling points, {} context switches, interleaving fingerprint {:016x}", points, switches, trace));
    }
    let mut states = BTreeSet::new();
    let mut sf = Fp::new();
    sf.u(0x7A5C);
    for t in distinct_types.iter() {
        sf.b(t.as_bytes());
    }
    sf.u(switches.min(8));
    states.insert(sf.0);
    RunResult { violations: viol, fingerprint: fp.0, counters, states, nontrivial: true, calls, draws, materialised: spec.clone(), log, interleaving: Some(trace) }
}
