//! The simulator's own PRNG (SplitMix64 -> xoshiro256**). Every decision of a run is drawn from one
//! instance seeded from (VERIF_SEED, run index). rand's generators are never used for harness choices.

#[derive(Clone, Debug)]
pub struct Prng {
    s: [u64; 4],
}

pub fn splitmix(x: &mut u64) -> u64 {
    *x = x.wrapping_add(0x9E37_79B9_7F4A_7C15);
    let mut z = *x;
    z = (z ^ (z >> 30)).wrapping_mul(0xBF58_476D_1CE4_E5B9);
    z = (z ^ (z >> 27)).wrapping_mul(0x94D0_49BB_1331_11EB);
    z ^ (z >> 31)
}

/// seed of run `i` of a batch started with `seed`
pub fn mix(seed: u64, i: u64) -> u64 {
    let mut x = seed ^ 0xD6E8_FEB8_6659_FD93u64.wrapping_mul(i.wrapping_add(1));
    let a = splitmix(&mut x);
    let b = splitmix(&mut x);
    a ^ b.rotate_left(29)
}

impl Prng {
    pub fn new(seed: u64) -> Prng {
        let mut x = seed;
        let s = [splitmix(&mut x), splitmix(&mut x), splitmix(&mut x), splitmix(&mut x)];
        Prng { s }
    }
    pub fn next(&mut self) -> u64 {
        let r = self.s[1].wrapping_mul(5).rotate_left(7).wrapping_mul(9);
        let t = self.s[1] << 17;
        self.s[2] ^= self.s[0];
        self.s[3] ^= self.s[1];
        self.s[1] ^= self.s[2];
        self.s[0] ^= self.s[3];
        self.s[2] ^= t;
        self.s[3] = self.s[3].rotate_left(45);
        r
    }
    /// uniform in 0..n (n >= 1); tiny modulo bias is irrelevant for workload choices
    pub fn below(&mut self, n: u64) -> u64 {
        debug_assert!(n > 0);
        ((self.next() as u128 * n as u128) >> 64) as u64
    }
    pub fn range(&mut self, lo: u64, hi_incl: u64) -> u64 {
        lo + self.below(hi_incl - lo + 1)
    }
    pub fn chance(&mut self, num: u64, den: u64) -> bool {
        self.below(den) < num
    }
    pub fn fill(&mut self, out: &mut [u8]) {
        for ch in out.chunks_mut(8) {
            let w = self.next().to_le_bytes();
            ch.copy_from_slice(&w[..ch.len()]);
        }
    }
    pub fn bytes(&mut self, n: usize) -> Vec<u8> {
        let mut v = vec![0u8; n];
        self.fill(&mut v);
        v
    }
    /// pick an index according to integer weights (sum > 0)
    pub fn weighted(&mut self, w: &[u32]) -> usize {
        let sum: u64 = w.iter().map(|&x| x as u64).sum();
        let mut r = self.below(sum.max(1));
        for (i, &x) in w.iter().enumerate() {
            if r < x as u64 {
                return i;
            }
            r -= x as u64;
        }
        w.len() - 1
    }
}

/// order-sensitive 64-bit fold used for run fingerprints
#[derive(Clone, Copy, Debug)]
pub struct Fp(pub u64);

impl Fp {
    pub fn new() -> Fp {
        Fp(0xCBF2_9CE4_8422_2325)
    }
    pub fn u(&mut self, x: u64) {
        let mut h = self.0 ^ x;
        h = h.wrapping_mul(0x0000_0100_0000_01B3);
        h ^= h >> 29;
        h = h.wrapping_mul(0xBF58_476D_1CE4_E5B9);
        h ^= h >> 32;
        self.0 = h;
    }
    pub fn b(&mut self, x: &[u8]) {
        self.u(x.len() as u64);
        for ch in x.chunks(8) {
            let mut w = [0u8; 8];
            w[..ch.len()].copy_from_slice(ch);
            self.u(u64::from_le_bytes(w));
        }
    }
}
