//! Executor: runs one RunSpec against the real bnum + rand code over a SimRng and evaluates the oracles
//! (invariants at each return; checks over the recorded history afterwards). Pure function of the spec.

use crate::json::hex;
use crate::prng::Fp;
use crate::refint;
use crate::simrng::{BudgetExceeded, Event, InjectedPanic, Method, Plan, Resp, SimRng, Src};
use crate::spec::{Op, OpKind, RunSpec};
use crate::types::TyObj;
use std::cell::{Cell, RefCell};
use std::collections::{BTreeMap, BTreeSet};
use std::panic::{catch_unwind, AssertUnwindSafe};

thread_local! {
    static IN_SIM: Cell<bool> = Cell::new(false);
    static LAST_PANIC: RefCell<Option<String>> = RefCell::new(None);
}

/// install a panic hook that is silent while simulated code runs (panics there are data, not errors)
pub fn install_panic_hook() {
    let default = std::panic::take_hook();
    std::panic::set_hook(Box::new(move |info| {
        if IN_SIM.with(|c| c.get()) {
            let msg = if let Some(s) = info.payload().downcast_ref::<&str>() {
                s.to_string()
            } else if let Some(s) = info.payload().downcast_ref::<String>() {
                s.clone()
            } else {
                String::new()
            };
            let loc = info.location().map(|l| format!(" @ {}:{}", l.file(), l.line())).unwrap_or_default();
            LAST_PANIC.with(|p| *p.borrow_mut() = Some(format!("{}{}", msg, loc)));
        } else {
            default(info);
        }
    }));
}

#[derive(Clone, Debug, PartialEq, Eq)]
pub enum PanicClass {
    Injected,
    Budget,
    RngFillFailed,
    Other(String),
}

#[derive(Clone, Debug)]
pub struct Violation {
    pub class: &'static str,
    pub op: usize,
    pub call: usize,
    pub detail: String,
}

pub type Counters = BTreeMap<&'static str, u64>;

pub struct RunResult {
    pub violations: Vec<Violation>,
    pub fingerprint: u64,
    pub counters: Counters,
    pub states: BTreeSet<u64>,
    pub nontrivial: bool,
    pub calls: u64,
    pub draws: u64,
    /// the same run with every served response written out explicitly (no PRNG left in it)
    pub materialised: RunSpec,
    pub log: Vec<String>,
    /// interleaved-tasks mode: fingerprint of the interleaving that was executed (who ran at each scheduling point)
    pub interleaving: Option<u64>,
}

/// hex of at most the first 32 bytes
fn hexs(b: &[u8]) -> String {
    if b.len() <= 32 {
        hex(b)
    } else {
        format!("{}…(+{} bytes)", hex(&b[..32]), b.len() - 32)
    }
}

fn bump(c: &mut Counters, k: &'static str) {
    *c.entry(k).or_insert(0) += 1;
}

pub(crate) fn guarded<T>(f: impl FnOnce() -> T) -> Result<T, PanicClass> {
    IN_SIM.with(|c| c.set(true));
    LAST_PANIC.with(|p| *p.borrow_mut() = None);
    let r = catch_unwind(AssertUnwindSafe(f));
    IN_SIM.with(|c| c.set(false));
    match r {
        Ok(v) => Ok(v),
        Err(payload) => {
            if payload.is::<InjectedPanic>() {
                Err(PanicClass::Injected)
            } else if payload.is::<BudgetExceeded>() {
                Err(PanicClass::Budget)
            } else {
                let msg = LAST_PANIC.with(|p| p.borrow_mut().take()).unwrap_or_default();
                if msg.starts_with("Rng::fill failed") {
                    Err(PanicClass::RngFillFailed)
                } else {
                    Err(PanicClass::Other(msg))
                }
            }
        }
    }
}

/// is `result` the in-order concatenation of prefixes of the byte strings the RNG successfully delivered during
/// the call? (Bytes that were never delivered — after an error, beyond a short request, from the buffer's old
/// contents — can never appear; whether an implementation over-reads is R6's business, not R4's.)
pub fn refines(result: &[u8], delivered: &[(Method, &[u8])]) -> bool {
    // Every request contributes a prefix of what it delivered (possibly all of it; for byte requests possibly
    // nothing): narrowing a word (`as u8`) or over-reading and discarding a tail still derives the result from the
    // RNG output in order. Depth-first over prefix lengths, longest first, with an explicit stack (a chunked fill
    // can make tens of thousands of requests). If the search budget runs out the answer is "cannot refute".
    let n = delivered.len();
    let min_k = |i: usize| if matches!(delivered[i].0, Method::NextU32 | Method::NextU64) { 1usize } else { 0 };
    // suffix[i] = bytes deliverable by chunks i..n
    let mut suffix = vec![0usize; n + 1];
    for i in (0..n).rev() {
        suffix[i] = suffix[i + 1] + delivered[i].1.len();
    }
    let assign = |d: usize, pos: usize, from_k: usize| -> Option<usize> {
        let b = delivered[d].1;
        let mut k = from_k + 1;
        while k > min_k(d) {
            k -= 1;
            // the rest of the result must still be coverable by the remaining chunks
            if result.len() - pos - k > suffix[d + 1] {
                return None;
            }
            if result[pos..pos + k] == b[..k] {
                return Some(k);
            }
        }
        None
    };
    let mut ks: Vec<usize> = Vec::with_capacity(n);
    let mut starts: Vec<usize> = Vec::with_capacity(n);
    let mut pos = 0usize;
    let mut steps = 0u64;
    loop {
        steps += 1;
        if steps > 5_000_000 {
            return true;
        }
        let d = ks.len();
        let mut ok = false;
        if d == n {
            if pos == result.len() {
                return true;
            }
        } else {
            let max_k = delivered[d].1.len().min(result.len() - pos);
            if let Some(k) = assign(d, pos, max_k) {
                starts.push(pos);
                ks.push(k);
                pos += k;
                ok = true;
            }
        }
        if ok {
            continue;
        }
        // backtrack to the deepest chunk that can still take a shorter prefix
        loop {
            let (Some(k), Some(p0)) = (ks.pop(), starts.pop()) else { return false };
            let dd = ks.len();
            if k > min_k(dd) {
                if let Some(k2) = assign(dd, p0, k - 1) {
                    starts.push(p0);
                    ks.push(k2);
                    pos = p0 + k2;
                    break;
                }
            }
        }
    }
}

struct Cluster {
    signed: bool,
    /// value -> distinct accepted words (calls that made exactly one request)
    fibres: BTreeMap<Vec<u8>, BTreeSet<Vec<u8>>>,
    first: (usize, usize),
}

fn plan_of_event(e: &Event, original: Option<&Plan>) -> Plan {
    match &e.resp {
        Resp::Ok(b) => Plan::Fixed(b.clone()),
        Resp::Err => Plan::Err,
        Resp::PartialErr(b) => {
            // smallest fraction that writes the same number of bytes
            let req = e.req.max(1) as usize;
            Plan::PartialErr(((b.len() * 256 + req - 1) / req).min(255) as u8)
        }
        Resp::Panic => match original {
            Some(p @ (Plan::Err | Plan::PartialErr(_))) => p.clone(),
            _ => Plan::Panic,
        },
    }
}

pub fn run(spec: &RunSpec, ty: &dyn TyObj, want_log: bool) -> RunResult {
    if !spec.tasks.is_empty() {
        return crate::tasks::run_tasks(spec, want_log);
    }
    let mut rng = SimRng::new(spec.fresh_seed, spec.infallible);
    rng.err_code = spec.err_code;
    let mut viol: Vec<Violation> = Vec::new();
    let mut counters = Counters::new();
    let mut states = BTreeSet::new();
    let mut fp = Fp::new();
    let mut log = Vec::new();
    let mut nontrivial = false;
    let mut calls_total = 0u64;
    let mut clusters: BTreeMap<(u8, Vec<u8>, Vec<u8>, usize), Cluster> = BTreeMap::new();
    // complete contiguous fibres seen by fibre walks: config -> (value, accepted words, first word, last word, op)
    let mut pending_r3b: Vec<((u8, Vec<u8>, Vec<u8>, usize), Violation)> = Vec::new();
    let mut walked: BTreeMap<(u8, Vec<u8>, Vec<u8>), Vec<(Vec<u8>, u64, Vec<u8>, Vec<u8>, usize)>> = BTreeMap::new();
    let mut mat = spec.clone();
    let width = ty.bytes();
    let signed = ty.signed();
    let type_tag = {
        let mut f = Fp::new();
        f.b(ty.name().as_bytes());
        f.0
    };

    for (oi, op) in spec.ops.iter().enumerate() {
        fp.u(oi as u64);
        fp.b(op.kind_name().as_bytes());
        let mut mat_calls: Vec<Vec<Plan>> = Vec::new();
        match &op.kind {
            OpKind::FillVsElem { len, stream } => {
                // R6 on two copies of one byte stream obeying the splitting law
                calls_total += 1;
                let mut a = SimRng::with_stream(stream.clone());
                let mut b = SimRng::with_stream(stream.clone());
                let ra = guarded(|| ty.fill(*len, 0, 0, crate::types::FillVia::TryFillSlice, &mut a, op.dynamic));
                let rb = guarded(|| (0..*len).map(|_| ty.gen(&mut b, op.dynamic)).collect::<Vec<_>>());
                bump(&mut counters, "op_fill_vs_elementwise");
                match (ra, rb) {
                    (Ok((Ok(()), va, _)), Ok(vb)) => {
                        fp.u(a.stream_pos() as u64);
                        for e in &va {
                            fp.b(e);
                        }
                        if va != vb {
                            let i = va.iter().zip(vb.iter()).position(|(x, y)| x != y).unwrap_or(0);
                            viol.push(Violation { class: "slice_elementwise", op: oi, call: 0, detail: format!("try_fill_slice(len {}) differs from element-by-element gen() at element {}: {} vs {}", len, i, va.get(i).map(|x| hex(x)).unwrap_or_default(), vb.get(i).map(|x| hex(x)).unwrap_or_default()) });
                        } else if a.stream_pos() != b.stream_pos() {
                            viol.push(Violation { class: "slice_elementwise", op: oi, call: 0, detail: format!("try_fill_slice consumed {} bytes, element-by-element gen() consumed {}", a.stream_pos(), b.stream_pos()) });
                        } else if *len > 0 {
                            bump(&mut counters, "probe_slice_equals_elementwise");
                        }
                    }
                    (ra, rb) => {
                        let d = format!("fill: {:?}; elementwise: {:?}", ra.map(|x| x.0), rb.map(|v| v.len()));
                        viol.push(Violation { class: "panic", op: oi, call: 0, detail: format!("fault-free stream, yet: {}", d) });
                    }
                }
                mat_calls = op.calls.clone();
            }
            OpKind::FibreWalk { low, high, inclusive, via, start, up, fibres, max_steps } => {
                let high_incl = if *inclusive { high.clone() } else { refint::add_small(high, -1) };
                bump(&mut counters, "op_fibre_walk");
                let sampler = if *via == 2 {
                    match guarded(|| ty.uniform(low, high, *inclusive, crate::types::Ctor::Val)) {
                        Ok(s) => Some(s),
                        Err(pc) => {
                            viol.push(Violation { class: "panic", op: oi, call: 0, detail: format!("constructing the sampler for [{} , {}] panicked: {:?}", hex(low), hex(high), pc) });
                            continue;
                        }
                    }
                } else {
                    None
                };
                let entry: u8 = if *via == 2 { 0 } else { 1 };
                let mut w = start.clone();
                // fibres in walk order: (value, accepted count, first word, last word)
                let mut runs: Vec<(Vec<u8>, u64, Vec<u8>, Vec<u8>)> = Vec::new();
                // step index of the first / last accepted word of each run (for the margins below)
                let mut run_steps: Vec<(u32, u32)> = Vec::new();
                // A counted fibre must lie at least MARGIN steps away from both ends of the walk, and the walk goes on
                // for MARGIN steps after it has seen enough fibres: a word of a counted value that a reordering of
                // words displaced by less than that shows up as a value going backwards and voids the walk.
                const MARGIN: u32 = 64;
                let mut enough_at: Option<u32> = None;
                let mut contiguous = true;
                let mut hit_end = false;
                let mut steps = 0u32;
                let mut aborted = false;
                let mut op_draws = 0u64;
                while steps < *max_steps + 2 * MARGIN {
                    steps += 1;
                    calls_total += 1;
                    let plan = [Plan::Fixed(w.clone())];
                    rng.forget_events();
                    let st = rng.begin_call_vol(&plan, width);
                    let r = match *via {
                        0 => guarded(|| ty.gen_range(low, high, *inclusive, &mut rng, op.dynamic)),
                        1 => guarded(|| ty.sample_single(low, high, *inclusive, false, &mut rng, op.dynamic)),
                        _ => {
                            let s = sampler.as_ref().unwrap();
                            guarded(|| s.sample(&mut rng, op.dynamic))
                        }
                    };
                    let evs = &rng.events[st..];
                    let _ = check_panic(&r, evs, oi, steps as usize - 1, &mut viol, &mut counters);
                    for e in evs {
                        fp.u(e.req as u64);
                        if let Resp::Ok(b) = &e.resp {
                            fp.b(b);
                        }
                    }
                    *counters.entry("draw_requests").or_insert(0) += evs.len() as u64;
                    op_draws += evs.len() as u64;
                    if op_draws > 64 * steps as u64 + 4096 {
                        // fewer than one word in 64 accepted: nothing to walk along (and unaffordable)
                        bump(&mut counters, "fibre_walk_abandoned_low_acceptance");
                        aborted = true;
                        break;
                    }
                    let Ok(v) = r else {
                        aborted = true;
                        break;
                    };
                    fp.b(&v);
                    if v.len() != width || !refint::in_range(signed, low, &high_incl, &v) {
                        viol.push(Violation { class: "membership", op: oi, call: steps as usize - 1, detail: format!("fibre walk: first word {} returned {} outside [{}, {}]", hex(&w), hex(&v), hex(low), hex(&high_incl)) });
                        aborted = true;
                        break;
                    }
                    if evs.len() == 1 {
                        // accepted as the only word of the call
                        let key = (entry, low.clone(), high_incl.clone(), w.len());
                        let c = clusters.entry(key).or_insert_with(|| Cluster { signed, fibres: BTreeMap::new(), first: (oi, 0) });
                        c.fibres.entry(v.clone()).or_default().insert(w.clone());
                        match runs.last_mut() {
                            Some(last) if last.0 == v => {
                                last.1 += 1;
                                last.3 = w.clone();
                                run_steps.last_mut().unwrap().1 = steps;
                            }
                            Some(last) => {
                                // the next fibre must belong to the adjacent value
                                let expect = refint::add_small(&last.0, if *up { 1 } else { -1 });
                                if v != expect {
                                    contiguous = false;
                                }
                                runs.push((v.clone(), 1, w.clone(), w.clone()));
                                run_steps.push((steps, steps));
                            }
                            None => {
                                runs.push((v.clone(), 1, w.clone(), w.clone()));
                                run_steps.push((steps, steps));
                            }
                        }
                        if !contiguous {
                            break;
                        }
                        // enough = `fibres` runs that start after the leading margin have been closed
                        if enough_at.is_none() {
                            let closed_after_margin = (0..runs.len().saturating_sub(1)).filter(|&i| i > 0 && run_steps[i].0 > MARGIN).count();
                            if closed_after_margin >= *fibres as usize {
                                enough_at = Some(steps);
                            }
                        }
                    }
                    if let Some(e) = enough_at {
                        if steps >= e + MARGIN {
                            break;
                        }
                    }
                    let nw = refint::add_small(&w, if *up { 1 } else { -1 });
                    let wrapped = if *up { refint::is_zero(&nw) } else { nw.iter().all(|&b| b == 0xFF) };
                    if wrapped {
                        hit_end = true;
                        break;
                    }
                    w = nw;
                }
                if want_log {
                    log.push(format!("op {} fibre_walk from {} {} over {} step(s): {}", oi, hex(start), if *up { "upward" } else { "downward" }, steps, runs.iter().map(|r| format!("{}x{}", hex(&r.0), r.1)).collect::<Vec<_>>().join(" ")));
                }
                nontrivial = true;
                states.insert(state_tuple(type_tag, 7, op.shape, runs.len() as u64, 0, steps as usize, if aborted { 6 } else { 1 }));
                if aborted {
                    continue;
                }
                if !contiguous {
                    // consecutive words do not map to consecutive values: the contiguous-fibre reading does not
                    // apply to this sampler; nothing is concluded
                    bump(&mut counters, "fibre_walk_inapplicable");
                    continue;
                }
                // a fibre is complete when both of its ends were seen: the walk entered it from the neighbouring
                // value (or started at the edge of the word space) and left it into the next value (or hit the end)
                let n = runs.len();
                let _ = hit_end;
                for (i, rn) in runs.iter().enumerate() {
                    // both neighbours seen, and the whole run at least MARGIN steps inside the walk (the edges of the
                    // word space are not taken for fibre ends: under a reordering of words they need not be)
                    let opened = i > 0 && run_steps[i].0 > MARGIN;
                    let closed = i + 1 < n && run_steps[i].1 + MARGIN <= steps;
                    if opened && closed {
                        bump(&mut counters, "probe_complete_fibres_counted");
                        let (first, last) = if *up { (rn.2.clone(), rn.3.clone()) } else { (rn.3.clone(), rn.2.clone()) };
                        walked.entry((entry, low.clone(), high_incl.clone())).or_default().push((rn.0.clone(), rn.1, first, last, oi));
                    }
                }
            }
            OpKind::SpanProbe { low, high, inclusive, via, targets } => {
                use std::cmp::Ordering as O;
                let high_incl = if *inclusive { high.clone() } else { refint::add_small(high, -1) };
                bump(&mut counters, "op_span_probe");
                nontrivial = true;
                let sampler = if *via == 2 {
                    match guarded(|| ty.uniform(low, high, *inclusive, crate::types::Ctor::Val)) {
                        Ok(s) => Some(s),
                        Err(pc) => {
                            viol.push(Violation { class: "panic", op: oi, call: 0, detail: format!("constructing the sampler for [{} , {}] panicked: {:?}", hex(low), hex(high), pc) });
                            continue;
                        }
                    }
                } else {
                    None
                };
                // r as bytes (full range: 2^W needs one more byte)
                let rbytes = match refint::range_size(low, &high_incl) {
                    Some(r) => r,
                    None => {
                        let mut r = vec![0u8; width + 1];
                        r[width] = 1;
                        r
                    }
                };
                // The width of the words this sampler draws is observed, not assumed: one call on a fresh word, and the
                // length of its first request is the word size `ww` of every measurement below (a sampler may draw narrower
                // words than the type for small ranges). The range must fit into such a word.
                let req_sizes: Vec<usize> = {
                    let mut best: Option<Vec<usize>> = None;
                    for d in 0..4 {
                        rng.forget_events();
                        let st = rng.begin_call_vol(&[], width);
                        let r0 = match *via {
                            0 => guarded(|| ty.gen_range(low, high, *inclusive, &mut rng, op.dynamic)),
                            1 => guarded(|| ty.sample_single(low, high, *inclusive, false, &mut rng, op.dynamic)),
                            _ => {
                                let s = sampler.as_ref().unwrap();
                                guarded(|| s.sample(&mut rng, op.dynamic))
                            }
                        };
                        let evs = &rng.events[st..];
                        let _ = check_panic(&r0, evs, oi, d, &mut viol, &mut counters);
                        *counters.entry("draw_requests").or_insert(0) += evs.len() as u64;
                        calls_total += 1;
                        if r0.is_err() || evs.is_empty() {
                            break;
                        }
                        let sizes: Vec<usize> = evs.iter().map(|e| e.req as usize).collect();
                        if best.as_ref().map(|b| sizes.len() < b.len()).unwrap_or(true) {
                            best = Some(sizes);
                        }
                        if best.as_ref().map(|b| b.len() == 1).unwrap_or(false) {
                            break;
                        }
                    }
                    match best {
                        Some(b) if b.iter().all(|&x| x >= 1) && b.iter().sum::<usize>() <= width && b.len() <= 16 => b,
                        _ => continue,
                    }
                };
                // an attempt of this sampler = one request of each of these sizes, in this order; a "word" is the
                // concatenation of the answers (for rand's u128 that is the value's little-endian byte order)
                let ww: usize = req_sizes.iter().sum();
                if req_sizes.len() > 1 {
                    bump(&mut counters, "span_probe_multi_request_attempts");
                }
                if ww != width {
                    bump(&mut counters, "span_probe_narrow_word_sampler");
                }
                // r in word space: ww + 1 bytes (r = 2^(8 ww) allowed); a range that does not fit cannot be measured
                if rbytes[(ww + 1).min(rbytes.len())..].iter().any(|&b| b != 0) || (rbytes.len() > ww && rbytes[ww] > 1) || (rbytes.len() > ww && rbytes[ww] == 1 && rbytes[..ww].iter().any(|&b| b != 0)) {
                    bump(&mut counters, "span_probe_targets_inapplicable");
                    continue;
                }
                let mut r_w = rbytes.clone();
                r_w.resize(ww + 1, 0);
                let maxw = vec![0xFFu8; ww];
                let zero = vec![0u8; ww];
                let mut aborted = false;
                let mut probes = 0u64;
                let mut op_draws = 0u64;
                let section = Cell::new("start");
                // one call with `w` as its only planned word: Some(value) if accepted at once, None if rejected
                let mut probe = |w: &[u8], viol: &mut Vec<Violation>, aborted: &mut bool| -> Option<Vec<u8>> {
                    if *aborted {
                        return None;
                    }
                    probes += 1;
                    if probes > 400_000 {
                        // no measurement needs this many calls: the answers are inconsistent from call to call
                        bump(&mut counters, "span_probe_abandoned_inconsistent");
                        *aborted = true;
                        return None;
                    }
                    if probes % 200_000 == 0 && std::env::var("VERIF_DEBUG").is_ok() {
                        eprintln!("span probe [{}]: {} probes so far, op_draws {}, run {} type {} low {} high {}", section.get(), probes, op_draws, spec.run, spec.ty, hex(low), hex(high));
                    }
                    let mut plan: Vec<Plan> = Vec::with_capacity(req_sizes.len());
                    let mut at = 0usize;
                    for &sz in req_sizes.iter() {
                        plan.push(Plan::Fixed(w[at.min(w.len())..(at + sz).min(w.len())].to_vec()));
                        at += sz;
                    }
                    rng.forget_events();
                    let st = rng.begin_call_vol(&plan, width);
                    let r = match *via {
                        0 => guarded(|| ty.gen_range(low, high, *inclusive, &mut rng, op.dynamic)),
                        1 => guarded(|| ty.sample_single(low, high, *inclusive, false, &mut rng, op.dynamic)),
                        _ => {
                            let s = sampler.as_ref().unwrap();
                            guarded(|| s.sample(&mut rng, op.dynamic))
                        }
                    };
                    let evs = &rng.events[st..];
                    let _ = check_panic(&r, evs, oi, probes as usize, viol, &mut counters);
                    for e in evs {
                        fp.u(e.req as u64);
                        if let Resp::Ok(b) = &e.resp {
                            fp.b(b);
                        }
                    }
                    *counters.entry("draw_requests").or_insert(0) += evs.len() as u64;
                    op_draws += evs.len() as u64;
                    if op_draws > 64 * probes + 4096 {
                        bump(&mut counters, "span_probe_abandoned_low_acceptance");
                        *aborted = true;
                        return None;
                    }
                    let Ok(v) = r else {
                        *aborted = true;
                        return None;
                    };
                    fp.b(&v);
                    if evs.len() < req_sizes.len() || evs.iter().zip(req_sizes.iter()).any(|(e, &sz)| e.req as usize != sz) {
                        // not one word of the observed size per attempt: the reading does not apply
                        *aborted = true;
                        return None;
                    }
                    if v.len() != width || !refint::in_range(signed, low, &high_incl, &v) {
                        viol.push(Violation { class: "membership", op: oi, call: probes as usize, detail: format!("span probe: first word {} returned {} outside [{}, {}]", hex(w), hex(&v), hex(low), hex(&high_incl)) });
                        *aborted = true;
                        return None;
                    }
                    if evs.len() == req_sizes.len() {
                        Some(v)
                    } else {
                        None
                    }
                };
                let mut sp = crate::prng::Prng::new(spec.fresh_seed ^ 0x5BA9_0000 ^ oi as u64);
                // measured blocks: (offset k, value, first word, last word, size)
                let mut blocks: Vec<(Vec<u8>, Vec<u8>, Vec<u8>, Vec<u8>, Vec<u8>)> = Vec::new();
                let mut inapplicable = 0u32;
                let mut spans_measured = 0u64;
                'targets: for k in targets.iter() {
                    if aborted {
                        break;
                    }
                    let mut kk = vec![0u8; width + 1];
                    kk[..width].copy_from_slice(k);
                    if refint::ucmp(&{ let mut t = kk.clone(); t.resize(rbytes.len().max(width + 1), 0); t }, &{ let mut t = rbytes.clone(); t.resize(rbytes.len().max(width + 1), 0); t }) != O::Less {
                        continue; // not an offset inside the range
                    }
                    let x = refint::add(low, k);
                    // multiply-shift hint for where the block of x lives: [A, Bm]
                    // the offset in word space (k < r <= 2^(8 ww), so nothing is cut off)
                    let mut kk_w = kk.clone();
                    kk_w.resize(ww + 1, 0);
                    let Some(a_hint) = refint::fibre_start(&kk_w, &r_w, ww) else { continue };
                    let k1 = refint::add_small(&kk_w, 1);
                    let bm = match refint::fibre_start(&k1, &r_w, ww) {
                        Some(b) => refint::add_small(&b, -1),
                        None => maxw.clone(),
                    };
                    if refint::ucmp(&a_hint, &bm) == O::Greater {
                        inapplicable += 1;
                        continue;
                    }
                    let span = refint::add_small(&refint::sub(&bm, &a_hint), 1); // >= 1 (0 means 2^W)
                    section.set("seed");
                    // a word that maps to x
                    let mid = refint::midpoint(&a_hint, &bm);
                    let mut seed = None;
                    for c in [a_hint.clone(), mid.clone(), refint::midpoint(&a_hint, &mid), refint::add_small(&a_hint, 1), bm.clone()] {
                        if refint::ucmp(&c, &a_hint) == O::Less || refint::ucmp(&c, &bm) == O::Greater {
                            continue;
                        }
                        if probe(&c, &mut viol, &mut aborted).as_ref() == Some(&x) {
                            seed = Some(c);
                            break;
                        }
                    }
                    let Some(s0) = seed else {
                        inapplicable += 1;
                        continue;
                    };
                    section.set("lower");
                    // lower end: bisect between a word that is not x (one span below the hint) and the seed
                    let l0 = if !refint::is_zero(&span) && refint::ucmp(&a_hint, &span) != O::Less { refint::sub(&a_hint, &span) } else { zero.clone() };
                    let a_x = if probe(&l0, &mut viol, &mut aborted).as_ref() == Some(&x) {
                        if refint::is_zero(&l0) {
                            zero.clone()
                        } else {
                            inapplicable += 1;
                            continue 'targets;
                        }
                    } else {
                        let (mut lo, mut hi) = (l0, s0.clone());
                        while refint::ucmp(&lo, &hi) == O::Less && refint::ucmp(&refint::add_small(&lo, 1), &hi) == O::Less && !aborted {
                            let m = refint::midpoint(&lo, &hi);
                            if probe(&m, &mut viol, &mut aborted).as_ref() == Some(&x) {
                                hi = m;
                            } else {
                                lo = m;
                            }
                        }
                        hi
                    };
                    section.set("upper");
                    // upper end
                    let room = refint::sub(&maxw, &bm);
                    let u0 = if !refint::is_zero(&span) && refint::ucmp(&room, &span) != O::Less { refint::add(&bm, &span) } else { maxw.clone() };
                    let e_x = if probe(&u0, &mut viol, &mut aborted).as_ref() == Some(&x) {
                        if u0 == maxw {
                            maxw.clone()
                        } else {
                            inapplicable += 1;
                            continue 'targets;
                        }
                    } else {
                        let (mut lo, mut hi) = (s0.clone(), u0);
                        while refint::ucmp(&lo, &hi) == O::Less && refint::ucmp(&refint::add_small(&lo, 1), &hi) == O::Less && !aborted {
                            let m = refint::midpoint(&lo, &hi);
                            if probe(&m, &mut viol, &mut aborted).as_ref() == Some(&x) {
                                lo = m;
                            } else {
                                hi = m;
                            }
                        }
                        lo
                    };
                    if aborted {
                        break;
                    }
                    section.set("verify");
                    // local verification of both ends, and the neighbours must be the adjacent values
                    let mut ok = true;
                    if !refint::is_zero(&a_x) {
                        let mut wv = refint::add_small(&a_x, -1);
                        for _ in 0..6 {
                            match probe(&wv, &mut viol, &mut aborted) {
                                Some(v) => {
                                    if v != refint::add_small(&x, -1) {
                                        ok = false;
                                    }
                                    break;
                                }
                                None => {
                                    if refint::is_zero(&wv) {
                                        break;
                                    }
                                    wv = refint::add_small(&wv, -1);
                                }
                            }
                        }
                    }
                    if e_x != maxw {
                        let mut wv = refint::add_small(&e_x, 1);
                        for _ in 0..6 {
                            match probe(&wv, &mut viol, &mut aborted) {
                                Some(v) => {
                                    if v != refint::add_small(&x, 1) {
                                        ok = false;
                                    }
                                    break;
                                }
                                None => {
                                    if wv == maxw {
                                        break;
                                    }
                                    wv = refint::add_small(&wv, 1);
                                }
                            }
                        }
                    }
                    section.set("exterior");
                    // Exterior: no word outside the block may map to x, and accepted words below / above the block must
                    // map to values below / above x. Checked exhaustively for 48 words on each side (catches local
                    // reorderings of words, e.g. a word permuted by XOR with a small constant before the multiply) and
                    // at every scale 2^j out to the distance of a whole span (catches reorderings of larger chunks).
                    let value_side = |v: &Vec<u8>| refint::ucmp(&refint::sub(v, low), k); // Less: below x, Greater: above x
                    if ok {
                        let span_bits = if refint::is_zero(&span) { ww * 8 } else { refint::bit_len(&span) };
                        // below the block
                        let mut d = 1u64;
                        let mut offsets: Vec<Vec<u8>> = Vec::new();
                        while d <= 48 {
                            offsets.push(refint::from_u64(d, ww));
                            d += 1;
                        }
                        for j in 6..=span_bits.min(ww * 8 - 1) {
                            let mut o = sp.bytes(ww);
                            for (i, b) in o.iter_mut().enumerate() {
                                let lo = i * 8;
                                if lo >= j {
                                    *b = 0;
                                } else if lo + 8 > j {
                                    *b &= ((1u16 << (j - lo)) - 1) as u8;
                                }
                            }
                            o[j / 8] |= 1 << (j % 8);
                            offsets.push(o);
                        }
                        for o in offsets.iter() {
                            if refint::ucmp(o, &a_x) != O::Greater {
                                let wv = refint::sub(&a_x, o);
                                if let Some(v) = probe(&wv, &mut viol, &mut aborted) {
                                    if value_side(&v) != O::Less {
                                        ok = false;
                                        break;
                                    }
                                }
                            }
                        }
                        // above the block
                        let room = refint::sub(&maxw, &e_x);
                        for o in offsets.iter() {
                            if !ok {
                                break;
                            }
                            if refint::ucmp(o, &room) != O::Greater {
                                let wv = refint::add(&e_x, o);
                                if let Some(v) = probe(&wv, &mut viol, &mut aborted) {
                                    if value_side(&v) != O::Greater {
                                        ok = false;
                                        break;
                                    }
                                }
                            }
                        }
                    }
                    section.set("interior");
                    // interior: every sampled word of [a_x, e_x] must be accepted at once and map to x
                    // Deterministically the first and last 48 words of the block, then 12 seeded interior words each
                    // together with its successor: a sampler whose consecutive words map to different values (low-bit
                    // or modulo mappings, for which bisection finds meaningless "blocks") cannot pass a single pair.
                    let size_m1 = refint::sub(&e_x, &a_x);
                    let mut offs: Vec<Vec<u8>> = Vec::new();
                    for t in 0..48u64 {
                        let tv = refint::from_u64(t, ww);
                        if refint::ucmp(&tv, &size_m1) != O::Greater {
                            offs.push(tv.clone());
                            offs.push(refint::sub(&size_m1, &tv));
                        }
                    }
                    for _ in 0..12 {
                        let o = crate::gen::below_incl(&mut sp, &size_m1);
                        if refint::ucmp(&o, &size_m1) == O::Less {
                            offs.push(refint::add_small(&o, 1));
                        }
                        offs.push(o);
                    }
                    for off in offs.iter() {
                        let wv = refint::add(&a_x, off);
                        if probe(&wv, &mut viol, &mut aborted).as_ref() != Some(&x) {
                            ok = false;
                            break;
                        }
                    }
                    if aborted {
                        break;
                    }
                    if !ok {
                        inapplicable += 1;
                        continue;
                    }
                    spans_measured += 1;
                    // size as width+1 bytes (a block can be the whole word space)
                    let mut size = vec![0u8; ww + 1];
                    size[..ww].copy_from_slice(&size_m1);
                    let size = refint::add_small(&size, 1);
                    blocks.push((k.clone(), x, a_x, e_x, size));
                }
                // ---- stride reading ------------------------------------------------------------------------------
                // Nothing could be measured under the contiguous-block reading. Try the other classic family: a
                // reduction modulo the range size, value = low + (w mod r) or high - (w mod r), where the words of one value
                // are c, c + r, c + 2r, ... and an acceptance threshold cuts that progression at one end. If — and only
                // if — the sampler demonstrably has that shape, the number of accepted words of a value is the number of
                // accepted steps k, located by bisection over k exactly as block ends are located above.
                let mut strides: Vec<(Vec<u8>, Vec<u8>, Vec<u8>, Vec<u8>, Vec<u8>)> = Vec::new(); // (value, residue c, k_lo, k_hi, count)
                if blocks.is_empty() && !aborted && r_w[ww] == 0 && refint::bit_len(&r_w[..ww]) >= 2 && refint::bit_len(&r_w[..ww]) + 4 <= ww * 8 {
                    section.set("stride");
                    let r = r_w[..ww].to_vec();
                    let off = |v: &Vec<u8>| -> Vec<u8> {
                        let mut o = refint::sub(v, low);
                        o.resize(ww, 0);
                        o
                    };
                    let inc = |o: &Vec<u8>| -> Vec<u8> {
                        let t = refint::add_small(o, 1);
                        if t == r { vec![0u8; ww] } else { t }
                    };
                    let dec = |o: &Vec<u8>| -> Vec<u8> {
                        if refint::is_zero(o) { refint::add_small(&r, -1) } else { refint::add_small(o, -1) }
                    };
                    // a base word among 0..8 and the direction of the mapping
                    let mut base: Option<(Vec<u8>, Vec<u8>)> = None;
                    for t in 0..8u64 {
                        let w = refint::from_u64(t, ww);
                        if let Some(v) = probe(&w, &mut viol, &mut aborted) {
                            base = Some((w, off(&v)));
                            break;
                        }
                    }
                    let mut dir: i8 = 0;
                    if let Some((w0, o0)) = &base {
                        if let Some(v1) = probe(&refint::add_small(w0, 1), &mut viol, &mut aborted) {
                            let o1 = off(&v1);
                            if o1 == inc(o0) {
                                dir = 1;
                            } else if o1 == dec(o0) {
                                dir = -1;
                            }
                        }
                    }
                    // the shape must hold at seeded places all over the word space: w -> w + 1 steps the value by `dir`
                    // (mod r), and w -> w + r leaves it alone
                    let mut shape_ok = dir != 0;
                    let mut pairs_seen = 0;
                    for _ in 0..10 {
                        if !shape_ok || aborted {
                            break;
                        }
                        let mut w = sp.bytes(ww);
                        w[ww - 1] &= 0x7F; // room for + r
                        let Some(v) = probe(&w, &mut viol, &mut aborted) else { continue };
                        let o = off(&v);
                        if let Some(v1) = probe(&refint::add_small(&w, 1), &mut viol, &mut aborted) {
                            if off(&v1) != if dir == 1 { inc(&o) } else { dec(&o) } {
                                shape_ok = false;
                            }
                            pairs_seen += 1;
                        }
                        if let Some(v2) = probe(&refint::add(&w, &r), &mut viol, &mut aborted) {
                            if off(&v2) != o {
                                shape_ok = false;
                            }
                            pairs_seen += 1;
                        }
                    }
                    if shape_ok && pairs_seen >= 8 && !aborted {
                        let (w0, o0) = base.clone().unwrap();
                        'st: for k in targets.iter() {
                            if aborted {
                                break;
                            }
                            let mut kw = k.clone();
                            if kw[ww.min(kw.len())..].iter().any(|&b| b != 0) {
                                continue;
                            }
                            kw.resize(ww, 0);
                            if refint::ucmp(&kw, &r) != O::Less {
                                continue;
                            }
                            let x = refint::add(low, k);
                            // residue class of the words that map to x
                            let t = if dir == 1 {
                                if refint::ucmp(&kw, &o0) != O::Less { refint::sub(&kw, &o0) } else { refint::sub(&refint::add(&kw, &r), &o0) }
                            } else if refint::ucmp(&o0, &kw) != O::Less {
                                refint::sub(&o0, &kw)
                            } else {
                                refint::sub(&refint::add(&o0, &r), &kw)
                            };
                            let c0 = refint::add(&w0, &t);
                            let c = if refint::ucmp(&c0, &r) != O::Less { refint::sub(&c0, &r) } else { c0 };
                            let kmax = refint::div_floor(&refint::sub(&maxw, &c), &r);
                            let word = |kk: &Vec<u8>| -> Vec<u8> {
                                let mut m = refint::mul(kk, &r);
                                m.truncate(ww);
                                refint::add(&c, &m)
                            };
                            // Some(true): accepted and maps to x; Some(false): rejected; None: maps elsewhere (shape broken)
                            type ProbeFn<'x> = &'x mut dyn FnMut(&[u8], &mut Vec<Violation>, &mut bool) -> Option<Vec<u8>>;
                            let acc_p = |probe: ProbeFn, kk: &Vec<u8>, viol: &mut Vec<Violation>, aborted: &mut bool| -> Option<bool> {
                                match probe(&word(kk), viol, aborted) {
                                    Some(v) if v == x => Some(true),
                                    Some(_) => None,
                                    None => Some(false),
                                }
                            };
                            let zero_k = vec![0u8; ww];
                            let (Some(a0), Some(ak)) = (acc_p(&mut probe, &zero_k, &mut viol, &mut aborted), acc_p(&mut probe, &kmax, &mut viol, &mut aborted)) else {
                                inapplicable += 1;
                                continue;
                            };
                            let (k_lo, k_hi) = match (a0, ak) {
                                (true, true) => (zero_k.clone(), kmax.clone()),
                                (false, false) => {
                                    inapplicable += 1;
                                    continue;
                                }
                                (true, false) => {
                                    // largest accepted step
                                    let (mut lo, mut hi) = (zero_k.clone(), kmax.clone());
                                    while refint::ucmp(&lo, &hi) == O::Less && refint::ucmp(&refint::add_small(&lo, 1), &hi) == O::Less && !aborted {
                                        let m = refint::midpoint(&lo, &hi);
                                        match acc_p(&mut probe, &m, &mut viol, &mut aborted) {
                                            Some(true) => lo = m,
                                            Some(false) => hi = m,
                                            None => {
                                                inapplicable += 1;
                                                continue 'st;
                                            }
                                        }
                                    }
                                    (zero_k.clone(), lo)
                                }
                                (false, true) => {
                                    let (mut lo, mut hi) = (zero_k.clone(), kmax.clone());
                                    while refint::ucmp(&lo, &hi) == O::Less && refint::ucmp(&refint::add_small(&lo, 1), &hi) == O::Less && !aborted {
                                        let m = refint::midpoint(&lo, &hi);
                                        match acc_p(&mut probe, &m, &mut viol, &mut aborted) {
                                            Some(true) => hi = m,
                                            Some(false) => lo = m,
                                            None => {
                                                inapplicable += 1;
                                                continue 'st;
                                            }
                                        }
                                    }
                                    (hi, kmax.clone())
                                }
                            };
                            if aborted {
                                break;
                            }
                            // verification: both ends accepted, the steps just outside rejected, seeded interior steps
                            // accepted, a few steps far outside rejected; the words next to sampled members belong to the
                            // neighbouring values
                            let mut ok = acc_p(&mut probe, &k_lo, &mut viol, &mut aborted) == Some(true) && acc_p(&mut probe, &k_hi, &mut viol, &mut aborted) == Some(true);
                            if ok && !refint::is_zero(&k_lo) {
                                ok = acc_p(&mut probe, &refint::add_small(&k_lo, -1), &mut viol, &mut aborted) == Some(false);
                            }
                            if ok && k_hi != kmax {
                                ok = acc_p(&mut probe, &refint::add_small(&k_hi, 1), &mut viol, &mut aborted) == Some(false);
                            }
                            let span_k = refint::sub(&k_hi, &k_lo);
                            for i in 0..16u64 {
                                if !ok || aborted {
                                    break;
                                }
                                let o = if i < 4 { refint::from_u64(i, ww) } else { crate::gen::below_incl(&mut sp, &span_k) };
                                if refint::ucmp(&o, &span_k) == O::Greater {
                                    continue;
                                }
                                let kk2 = if i % 2 == 0 { refint::add(&k_lo, &o) } else { refint::sub(&k_hi, &o) };
                                if acc_p(&mut probe, &kk2, &mut viol, &mut aborted) != Some(true) {
                                    ok = false;
                                    break;
                                }
                                // neighbours in word space belong to the neighbouring values (or are rejected)
                                let wv = word(&kk2);
                                if wv != maxw {
                                    if let Some(v) = probe(&refint::add_small(&wv, 1), &mut viol, &mut aborted) {
                                        if off(&v) != if dir == 1 { inc(&kw) } else { dec(&kw) } {
                                            ok = false;
                                        }
                                    }
                                }
                            }
                            // steps outside [k_lo, k_hi] must be rejected
                            for _ in 0..6 {
                                if !ok || aborted {
                                    break;
                                }
                                if k_hi != kmax {
                                    let room = refint::sub(&kmax, &k_hi);
                                    let o = crate::gen::below_incl(&mut sp, &room);
                                    if !refint::is_zero(&o) && acc_p(&mut probe, &refint::add(&k_hi, &o), &mut viol, &mut aborted) != Some(false) {
                                        ok = false;
                                    }
                                }
                                if !refint::is_zero(&k_lo) {
                                    let o = crate::gen::below_incl(&mut sp, &k_lo);
                                    if !refint::is_zero(&o) && acc_p(&mut probe, &refint::sub(&k_lo, &o), &mut viol, &mut aborted) != Some(false) {
                                        ok = false;
                                    }
                                }
                            }
                            if aborted {
                                break;
                            }
                            if !ok {
                                inapplicable += 1;
                                continue;
                            }
                            let mut cnt = vec![0u8; ww + 1];
                            cnt[..ww].copy_from_slice(&span_k);
                            let cnt = refint::add_small(&cnt, 1);
                            strides.push((x, c, k_lo, k_hi, cnt));
                        }
                    }
                    *counters.entry("probe_strides_measured").or_insert(0) += strides.len() as u64;
                    if strides.len() >= 2 && !aborted {
                        bump(&mut counters, "stride_probe_configs_compared");
                        let mn = strides.iter().min_by(|a, b| refint::ucmp(&a.4, &b.4)).unwrap();
                        let mx = strides.iter().max_by(|a, b| refint::ucmp(&a.4, &b.4)).unwrap();
                        if mn.4 != mx.4 && refint::add_small(&mn.4, 1) != mx.4 {
                            bump(&mut counters, "stride_probe_sizes_implausible");
                        } else if mn.4 != mx.4 {
                            viol.push(Violation {
                                class: "fibre_strides_differ",
                                op: oi,
                                call: 0,
                                detail: format!(
                                    "{} on [{}, {}] reduces {}-bit words modulo the range size {} (w and w + r give the same value, w + 1 the next one — checked at seeded places): value {} is produced exactly by the {} words {} + k*r, k = {}..={}, but value {} by the {} words {} + k*r, k = {}..={} (little-endian hex; ends located by bisection over k, steps outside rejected, steps inside sampled) — values do not have the same number of accepted preimages",
                                    ["gen_range", "sample_single", "Uniform::sample"][*via as usize % 3], hex(low), hex(&high_incl), ww * 8, hex(&r), hex(&mn.0), hex(&mn.4), hex(&mn.1), hex(&mn.2), hex(&mn.3), hex(&mx.0), hex(&mx.4), hex(&mx.1), hex(&mx.2), hex(&mx.3)
                                ),
                            });
                        }
                    }
                }
                calls_total += probes;
                *counters.entry("probe_spans_measured").or_insert(0) += spans_measured;
                if want_log {
                    log.push(format!("op {} span_probe: {} probe call(s); blocks: {}", oi, probes, blocks.iter().map(|b| format!("value {} = words {}..={} ({} words)", hex(&b.1), hex(&b.2), hex(&b.3), hex(&b.4))).collect::<Vec<_>>().join("; ")));
                }
                states.insert(state_tuple(type_tag, 8, op.shape, blocks.len() as u64, 0, probes.min(100) as usize, if aborted { 6 } else { 1 }));
                if inapplicable > 0 {
                    *counters.entry("span_probe_targets_inapplicable").or_insert(0) += inapplicable as u64;
                }
                if aborted || blocks.len() < 2 {
                    continue;
                }
                bump(&mut counters, "span_probe_configs_compared");
                let mn = blocks.iter().min_by(|a, b| refint::ucmp(&a.4, &b.4)).unwrap();
                let mx = blocks.iter().max_by(|a, b| refint::ucmp(&a.4, &b.4)).unwrap();
                // Second safety net against a misread structure. In any sampler that accepts a word by comparing a
                // quantity that advances in equal steps along a fibre with a threshold (every multiply-shift sampler,
                // whatever its zone), the accepted words of two values differ in number by at most ONE, however wrong the
                // zone is: that is the signature of every zone / remainder / threshold defect. A larger difference means
                // the "blocks" found by bisection are not fibres (words reordered by the sampler, say) — nothing is
                // concluded from them.
                let diff_is_one = refint::add_small(&mn.4, 1) == mx.4;
                if mn.4 != mx.4 && !diff_is_one {
                    bump(&mut counters, "span_probe_sizes_implausible");
                } else if mn.4 != mx.4 {
                    viol.push(Violation {
                        class: "fibre_spans_differ",
                        op: oi,
                        call: 0,
                        detail: format!(
                            "{} on [{}, {}]: value {} is produced exactly by the {} consecutive first words {}..={} but value {} by the {} consecutive words {}..={} (little-endian hex; both ends of each block located by bisection and verified against the neighbouring values, interior sampled) — values do not have the same number of accepted preimages",
                            ["gen_range", "sample_single", "Uniform::sample"][*via as usize % 3], hex(low), hex(&high_incl), hex(&mn.1), hex(&mn.4), hex(&mn.2), hex(&mn.3), hex(&mx.1), hex(&mx.4), hex(&mx.2), hex(&mx.3)
                        ),
                    });
                }
            }
            OpKind::Census { low, high, inclusive, via, samples } => {
                let high_incl = if *inclusive { high.clone() } else { refint::add_small(high, -1) };
                bump(&mut counters, "op_census");
                nontrivial = true;
                let sampler = if *via == 2 {
                    match guarded(|| ty.uniform(low, high, *inclusive, crate::types::Ctor::Val)) {
                        Ok(s) => Some(s),
                        Err(pc) => {
                            viol.push(Violation { class: "panic", op: oi, call: 0, detail: format!("constructing the sampler for [{} , {}] panicked: {:?}", hex(low), hex(high), pc) });
                            continue;
                        }
                    }
                } else {
                    None
                };
                let Some(r) = refint::range_size(low, &high_incl).and_then(|r| refint::to_u64(&r)) else { continue };
                if r == 0 || r > 256 || (*samples as u64) < 64 * r {
                    continue; // the bounds below are calibrated for a mean of at least 64 per value
                }
                let mut counts: BTreeMap<Vec<u8>, u64> = BTreeMap::new();
                let mut aborted = false;
                let mut census_draws = 0u64;
                // window = all calls for an ordinary census (64 r or 128 r calls); 128 r for a soak
                let window: u64 = if (*samples as u64) > 256 * r { 128 * r } else { *samples as u64 };
                let mut in_window = 0u64;
                let mut windows_done = 0u64;
                let mut worst: Option<(Vec<u8>, u64, u64)> = None;
                for ci in 0..*samples as usize {
                    calls_total += 1;
                    rng.forget_events();
                    let st = rng.begin_call_vol(&[], width);
                    let res = match *via {
                        0 => guarded(|| ty.gen_range(low, high, *inclusive, &mut rng, op.dynamic)),
                        1 => guarded(|| ty.sample_single(low, high, *inclusive, false, &mut rng, op.dynamic)),
                        _ => {
                            let s = sampler.as_ref().unwrap();
                            guarded(|| s.sample(&mut rng, op.dynamic))
                        }
                    };
                    let evs = &rng.events[st..];
                    let _ = check_panic(&res, evs, oi, ci, &mut viol, &mut counters);
                    *counters.entry("draw_requests").or_insert(0) += evs.len() as u64;
                    let Ok(v) = res else {
                        aborted = true;
                        break;
                    };
                    if v.len() != width || !refint::in_range(signed, low, &high_incl, &v) {
                        viol.push(Violation { class: "membership", op: oi, call: ci, detail: format!("census: returned {} outside [{}, {}]; RNG words: [{}]", hex(&v), hex(low), hex(&high_incl), evs.iter().filter_map(|e| if let Resp::Ok(b) = &e.resp { Some(hex(b)) } else { None }).collect::<Vec<_>>().join(" ")) });
                        aborted = true;
                        break;
                    }
                    if *samples as u64 <= 256 * r {
                        fp.b(&v);
                    } else {
                        fp.u(v[0] as u64);
                    }
                    *counts.entry(v).or_insert(0) += 1;
                    in_window += 1;
                    if in_window == window && (ci as u64 + 1) + window <= *samples as u64 {
                        // a full window with at least one more to come: evaluate and start over
                        let m = window / r;
                        if let Some((x, c)) = census_window(&counts, low, r, width, m / 8, 3 * m + 8) {
                            worst = Some((x, c, windows_done));
                            break;
                        }
                        counts.clear();
                        in_window = 0;
                        windows_done += 1;
                    }
                    census_draws += evs.len() as u64;
                    if census_draws > 64 * *samples as u64 + 4096 {
                        // fewer than one word in 64 accepted: not what this oracle is about (and unaffordable)
                        bump(&mut counters, "census_abandoned_low_acceptance");
                        aborted = true;
                        break;
                    }
                }
                states.insert(state_tuple(type_tag, 9, op.shape, r, 0, 1, if aborted { 6 } else { 1 }));
                if aborted {
                    continue;
                }
                // Every value's count is Binomial(n, 1/r) for ANY sampler with equal preimage counts fed with
                // independent uniform words (rejected words are simply redrawn). With mean m = n / r >= 64:
                // P(count < m/8) < 1e-18 and P(count > 3m + 8) < 1e-30 (Chernoff), per value. Long censuses (soaks) are
                // evaluated window by window (128 r calls each), so that a sampler whose behaviour changes after very many
                // calls is caught in the window where it changes; `worst` holds the first bad window's evidence.
                let mean = window / r;
                let (lo_b, hi_b) = (mean / 8, 3 * mean + 8);
                if worst.is_none() && in_window == window {
                    worst = census_window(&counts, low, r, width, lo_b, hi_b).map(|(x, c)| (x, c, windows_done));
                }
                if want_log {
                    log.push(format!("op {} census over {} value(s), {} calls in {} window(s) of {}: last window counts min {} max {}", oi, r, samples, windows_done + 1, window, (0..r).map(|k| counts.get(&refint::add(low, &refint::from_u64(k, width))).copied().unwrap_or(0)).min().unwrap_or(0), counts.values().max().copied().unwrap_or(0)));
                }
                let worst = worst.map(|(x, c, wi)| {
                    let _ = wi;
                    (x, c)
                });
                match worst {
                    Some((x, c)) => viol.push(Violation {
                        class: "value_frequency",
                        op: oi,
                        call: 0,
                        detail: format!(
                            "{} on [{}, {}] ({} values): in calls {}..{} of this op, all on fresh independent uniform words, value {} was returned {} times (mean for equal preimage counts: {}; a count outside [{}, {}] has probability < 1e-17 for any such sampler) — values are not equally likely, so they cannot have equally many accepted words",
                            ["gen_range", "sample_single", "Uniform::sample"][*via as usize % 3], hex(low), hex(&high_incl), r, windows_done * window, windows_done * window + in_window, hex(&x), c, mean, lo_b, hi_b
                        ),
                    }),
                    None => bump(&mut counters, "probe_census_all_values_seen"),
                }
            }
            OpKind::Gen => {
                for (ci, plan) in op.calls.iter().enumerate() {
                    calls_total += 1;
                    let start = rng.begin_call_vol(plan, width);
                    let r = guarded(|| ty.gen(&mut rng, op.dynamic));
                    let evs = &rng.events[start..];
                    bump(&mut counters, "op_gen");
                    let fault = check_panic(&r, evs, oi, ci, &mut viol, &mut counters);
                    if let Ok(v) = &r {
                        let delivered: Vec<(Method, &[u8])> = evs.iter().filter_map(|e| if let Resp::Ok(b) = &e.resp { Some((e.method, &b[..])) } else { None }).collect();
                        if !refines(v, &delivered) {
                            viol.push(Violation { class: "refinement", op: oi, call: ci, detail: format!("gen() returned {} but the RNG delivered [{}]", hex(v), delivered.iter().map(|d| hex(d.1)).collect::<Vec<_>>().join(" ")) });
                        } else {
                            bump(&mut counters, "probe_gen_refines_history");
                            if evs.iter().any(|e| e.src == Src::Fixed) {
                                bump(&mut counters, "probe_gen_reaches_chosen_value");
                            }
                        }
                        fp.b(v);
                    }
                    finish_call(&mut fp, evs, &mut counters, &mut log, want_log, oi, ci, op, &r.as_ref().map(|v| hex(v)).map_err(|e| e.clone()));
                    states.insert(state_tuple(type_tag, 0, op.shape, 0, fault, evs.len(), outcome_class(&r)));
                    nontrivial |= fault != 0;
                    mat_calls.push(evs.iter().enumerate().map(|(i, e)| plan_of_event(e, plan.get(i))).collect());
                }
            }
            OpKind::Fill { len, init, front, via } => {
                for (ci, plan) in op.calls.iter().enumerate() {
                    calls_total += 1;
                    let start = rng.begin_call_vol(plan, width * (*len).max(1));
                    let r = guarded(|| ty.fill(*len, *init, *front, *via, &mut rng, op.dynamic));
                    let evs = &rng.events[start..];
                    bump(&mut counters, "op_fill");
                    let fault = check_panic(&r, evs, oi, ci, &mut viol, &mut counters);
                    let injected_err = evs.iter().any(|e| matches!(e.resp, Resp::Err | Resp::PartialErr(_)));
                    if let Ok((_, _, false)) = &r {
                        viol.push(Violation { class: "out_of_bounds_write", op: oi, call: ci, detail: format!("fill of a {}-element sub-slice (starting {} element(s) into a buffer) changed an element outside the sub-slice", len, front) });
                    }
                    match &r {
                        Ok((Ok(()), elems, _)) => {
                            let flat: Vec<u8> = elems.iter().flatten().copied().collect();
                            let delivered: Vec<(Method, &[u8])> = evs.iter().filter_map(|e| if let Resp::Ok(b) = &e.resp { Some((e.method, &b[..])) } else { None }).collect();
                            if !refines(&flat, &delivered) {
                                let what = if injected_err { " (the RNG reported an error during this call, yet Ok was returned)" } else { "" };
                                let first_bad = {
                                    // first byte of the result that cannot come from the delivered bytes in order (greedy hint)
                                    let all: Vec<u8> = delivered.iter().flat_map(|d| d.1.iter().copied()).collect();
                                    flat.iter().zip(all.iter()).position(|(a, b)| a != b).unwrap_or(all.len().min(flat.len()))
                                };
                                viol.push(Violation { class: "refinement", op: oi, call: ci, detail: format!("fill of {} element(s) ({} bytes) returned Ok, but its bytes are not the bytes the RNG delivered during the call ({} request(s), {} bytes delivered){}; first difference near byte {} (element {}): result {} vs delivered {}", len, flat.len(), evs.len(), delivered.iter().map(|d| d.1.len()).sum::<usize>(), what, first_bad, first_bad / width.max(1), hexs(&flat[first_bad.min(flat.len())..]), hexs(&delivered.iter().flat_map(|d| d.1.iter().copied()).skip(first_bad).take(64).collect::<Vec<u8>>())) });
                            } else {
                                bump(&mut counters, "probe_fill_refines_history");
                                if *len == 0 {
                                    bump(&mut counters, "probe_zero_length_fill");
                                }
                            }
                            fp.b(&flat);
                        }
                        Ok((Err(()), _, _)) => {
                            if injected_err {
                                bump(&mut counters, "probe_err_propagated");
                            } else {
                                viol.push(Violation { class: "spurious_err", op: oi, call: ci, detail: format!("fill of {} element(s) returned Err although the RNG never failed", len) });
                            }
                            fp.u(0xE44);
                        }
                        Err(_) => {}
                    }
                    let summary = match &r {
                        Ok((Ok(()), e, _)) => Ok(format!("Ok {} elems", e.len())),
                        Ok((Err(()), _, _)) => Ok("Err".to_string()),
                        Err(e) => Err(e.clone()),
                    };
                    finish_call(&mut fp, evs, &mut counters, &mut log, want_log, oi, ci, op, &summary);
                    let oc = match &r {
                        Ok((Ok(()), _, _)) => 1,
                        Ok((Err(()), _, _)) => 2,
                        Err(_) => 3,
                    };
                    states.insert(state_tuple(type_tag, 1, (*len).min(9) as u8, *via as u64, fault, evs.len(), oc));
                    nontrivial |= fault != 0 || *len > 1;
                    mat_calls.push(evs.iter().enumerate().map(|(i, e)| plan_of_event(e, plan.get(i))).collect());
                }
            }
            OpKind::GenRange { low, high, inclusive } | OpKind::Single { low, high, inclusive, .. } | OpKind::Uniform { low, high, inclusive, .. } => {
                let high_incl = if *inclusive { high.clone() } else { refint::add_small(high, -1) };
                let (entry, kind_id): (u8, u64) = match &op.kind {
                    OpKind::GenRange { .. } => (1, 2),
                    OpKind::Single { .. } => (1, 3),
                    _ => (0, 4),
                };
                let rsize = refint::range_size(low, &high_incl);
                if rsize.is_none() {
                    bump(&mut counters, "probe_full_range");
                }
                if signed && low[width - 1] & 0x80 != 0 && high_incl[width - 1] & 0x80 == 0 {
                    bump(&mut counters, "probe_signed_range_spans_zero");
                }
                // constructor (Uniform only) runs real bnum code too
                let mut sampler = None;
                if let OpKind::Uniform { ctor, .. } = &op.kind {
                    match guarded(|| ty.uniform(low, high, *inclusive, *ctor)) {
                        Ok(s) => sampler = Some(s),
                        Err(pc) => {
                            viol.push(Violation { class: "panic", op: oi, call: 0, detail: format!("constructing the sampler for [{} , {}]{} panicked: {:?}", hex(low), hex(high), if *inclusive { " inclusive" } else { "" }, pc) });
                            mat.ops[oi].calls = Vec::new();
                            continue;
                        }
                    }
                }
                for (ci, plan) in op.calls.iter().enumerate() {
                    calls_total += 1;
                    let backup = sampler.as_ref().map(|s| s.dup());
                    let start = rng.begin_call_vol(plan, width);
                    let r = match &op.kind {
                        OpKind::GenRange { .. } => guarded(|| ty.gen_range(low, high, *inclusive, &mut rng, op.dynamic)),
                        OpKind::Single { by_ref, .. } => guarded(|| ty.sample_single(low, high, *inclusive, *by_ref, &mut rng, op.dynamic)),
                        _ => {
                            let s = sampler.as_ref().unwrap();
                            guarded(|| s.sample(&mut rng, op.dynamic))
                        }
                    };
                    let evs = &rng.events[start..];
                    bump(&mut counters, match &op.kind {
                        OpKind::GenRange { .. } => "op_gen_range",
                        OpKind::Single { .. } => "op_sample_single",
                        _ => "op_uniform_sample",
                    });
                    let fault = check_panic(&r, evs, oi, ci, &mut viol, &mut counters);
                    if r.is_err() && sampler.is_some() {
                        // crash-and-continue: the copy taken before the panic is used from here on
                        sampler = backup;
                        bump(&mut counters, "probe_sampler_reused_after_panic");
                    }
                    if let Ok(v) = &r {
                        if v.len() != width || !refint::in_range(signed, low, &high_incl, v) {
                            viol.push(Violation { class: "membership", op: oi, call: ci, detail: format!("{} returned {} outside [{}, {}] (little-endian hex, {} {}-byte type); RNG words: [{}]", op.kind_name(), hex(v), hex(low), hex(&high_incl), if signed { "signed" } else { "unsigned" }, width, evs.iter().filter_map(|e| if let Resp::Ok(b) = &e.resp { Some(hex(b)) } else { None }).collect::<Vec<_>>().join(" ")) });
                        } else {
                            if v == low {
                                bump(&mut counters, "probe_result_eq_low");
                            }
                            if *v == high_incl {
                                bump(&mut counters, "probe_result_eq_high");
                            }
                            // low + offset carried across a digit boundary?
                            let db = ty.digit_bytes();
                            if width > db && v[db..] != low[db..] {
                                bump(&mut counters, "probe_offset_carries_past_first_digit");
                            }
                        }
                        let oks: Vec<&Event> = evs.iter().filter(|e| matches!(e.resp, Resp::Ok(_))).collect();
                        if oks.len() >= 2 {
                            bump(&mut counters, "probe_rejection_then_accept");
                            if evs.iter().any(|e| e.src == Src::Repeat) && evs.last().map(|e| e.src == Src::Fresh).unwrap_or(false) {
                                bump(&mut counters, "probe_stall_recovered");
                            }
                        }
                        // R3b: the value must be a function of the accepted word alone. Serve the accepted
                        // (last) word of a call that went through rejections as the only word of a fresh call
                        // on a scratch RNG: it must be accepted at once and give the same value.
                        if oks.len() >= 2 && oks.len() == evs.len() && evs.iter().all(|e| e.req == evs[0].req) {
                            if let Resp::Ok(w) = &evs[evs.len() - 1].resp {
                                let mut probe = SimRng::new(0x0BAD_5EED, false);
                                probe.begin_call_vol(&[Plan::Fixed(w.clone())], width);
                                let r2 = match &op.kind {
                                    OpKind::GenRange { .. } => guarded(|| ty.gen_range(low, high, *inclusive, &mut probe, op.dynamic)),
                                    OpKind::Single { by_ref, .. } => guarded(|| ty.sample_single(low, high, *inclusive, *by_ref, &mut probe, op.dynamic)),
                                    _ => {
                                        let s = sampler.as_ref().unwrap();
                                        guarded(|| s.sample(&mut probe, op.dynamic))
                                    }
                                };
                                match r2 {
                                    Ok(v2) if probe.events.len() == 1 => {
                                        if v2 != *v {
                                            viol.push(Violation { class: "accepted_word_value", op: oi, call: ci, detail: format!("{} on [{}, {}]: after {} rejected word(s) the accepted word {} produced {}, but the same word served as the first word produces {} — the result is not a function of the accepted word, so accepted words do not map onto the range with equal preimages", op.kind_name(), hex(low), hex(&high_incl), evs.len() - 1, hex(w), hex(v), hex(&v2)) });
                                        } else {
                                            bump(&mut counters, "probe_accepted_word_is_function");
                                        }
                                    }
                                    Ok(_) => {
                                        // Only meaningful if this sampler's attempts are single requests; that is
                                        // corroborated at the end of the run by a call of the same configuration
                                        // that completed with exactly one request of this size (else: undecided).
                                        pending_r3b.push(((entry, low.clone(), high_incl.clone(), w.len()), Violation { class: "accepted_word_value", op: oi, call: ci, detail: format!("{} on [{}, {}]: word {} was accepted as draw {} of a call but is rejected when served as the first word — acceptance depends on the history, not on the word", op.kind_name(), hex(low), hex(&high_incl), hex(w), evs.len()) }));
                                    }
                                    Err(_) => {}
                                }
                            }
                        }
                        // R3 bookkeeping: a call that made exactly one request, answered Ok: that word alone
                        // determined the value
                        if evs.len() == 1 {
                            if let Resp::Ok(w) = &evs[0].resp {
                                let key = (entry, low.clone(), high_incl.clone(), w.len());
                                let c = clusters.entry(key).or_insert_with(|| Cluster { signed, fibres: BTreeMap::new(), first: (oi, ci) });
                                c.fibres.entry(v.clone()).or_default().insert(w.clone());
                            }
                        }
                        fp.b(v);
                    }
                    finish_call(&mut fp, evs, &mut counters, &mut log, want_log, oi, ci, op, &r.as_ref().map(|v| hex(v)).map_err(|e| e.clone()));
                    let qb = rsize.as_ref().map(|r| refint::pow2_div(width, r, 8).map(|q| q as u8).unwrap_or(9)).unwrap_or(1);
                    states.insert(state_tuple(type_tag, kind_id, op.shape, qb as u64, fault, evs.len(), outcome_class(&r)));
                    nontrivial |= fault != 0 || evs.len() >= 2;
                    mat_calls.push(evs.iter().enumerate().map(|(i, e)| plan_of_event(e, plan.get(i))).collect());
                }
            }
        }
        mat.ops[oi].calls = mat_calls;
    }

    // check over the recorded history: preimage bound (R3). If every value has the same number c of
    // accepted W-bit words then r*c <= 2^W, so no value can own more than q = floor(2^W / r) of them.
    for ((_entry, low, high_incl, w), cl) in clusters.iter() {
        let q = match refint::range_size(low, high_incl) {
            Some(r) => refint::pow2_div(*w, &r, 1 << 16),
            None => {
                // full range: r = 2^(8*width)
                let mut r = vec![0u8; low.len() + 1];
                r[low.len()] = 1;
                refint::pow2_div(*w, &r, 1 << 16)
            }
        };
        let Some(q) = q else { continue };
        bump(&mut counters, "r3_clusters_checked");
        let mut maxf = 0usize;
        for (val, words) in cl.fibres.iter() {
            maxf = maxf.max(words.len());
            if words.len() as u64 > q {
                let _ = cl.signed;
                viol.push(Violation {
                    class: "preimage_bound",
                    op: cl.first.0,
                    call: cl.first.1,
                    detail: format!(
                        "range [{}, {}] has floor(2^{} / r) = {} but value {} is produced by {} distinct accepted {}-bit words: [{}] — fibres cannot all have equal size",
                        hex(low), hex(high_incl), w * 8, q, hex(val), words.len(), w * 8,
                        words.iter().take(12).map(|x| hex(x)).collect::<Vec<_>>().join(" ")
                    ),
                });
                break;
            }
        }
        if maxf as u64 == q && q >= 1 {
            bump(&mut counters, "probe_fibre_at_bound");
        }
    }

    for (key, v) in pending_r3b {
        if clusters.contains_key(&key) {
            viol.push(v);
        } else {
            bump(&mut counters, "r3b_undecided_no_single_request_completion");
        }
    }

    // exact fibre sizes at any width: every complete contiguous fibre of one sampler configuration must
    // have the same number of accepted words
    for ((_e, low, high_incl), fs) in walked.iter() {
        let mut by_value: BTreeMap<&Vec<u8>, &(Vec<u8>, u64, Vec<u8>, Vec<u8>, usize)> = BTreeMap::new();
        for f in fs.iter() {
            by_value.entry(&f.0).or_insert(f);
        }
        let mn = by_value.values().min_by_key(|f| f.1).unwrap();
        let mx = by_value.values().max_by_key(|f| f.1).unwrap();
        if by_value.len() >= 2 {
            bump(&mut counters, "fibre_walk_configs_compared");
        }
        if mn.1 != mx.1 && mx.1 - mn.1 != 1 {
            // see the span probes: a threshold sampler's fibres differ by at most one word; anything else is a misread
            bump(&mut counters, "fibre_walk_sizes_implausible");
        } else if mn.1 != mx.1 {
            viol.push(Violation {
                class: "fibre_sizes_differ",
                op: mn.4,
                call: 0,
                detail: format!(
                    "range [{}, {}]: value {} is produced by exactly {} accepted words (the contiguous words {}..={} , bounded on both sides by the neighbouring values) but value {} by exactly {} (words {}..={})",
                    hex(low), hex(high_incl), hex(&mn.0), mn.1, hex(&mn.2), hex(&mn.3), hex(&mx.0), mx.1, hex(&mx.2), hex(&mx.3)
                ),
            });
        }
    }

    mat.fresh_seed = spec.fresh_seed;
    RunResult {
        violations: viol,
        fingerprint: fp.0,
        counters,
        states,
        nontrivial,
        calls: calls_total,
        draws: rng.events_total,
        materialised: mat,
        log,
        interleaving: None,
    }
}

pub(crate) fn outcome_class<T>(r: &Result<T, PanicClass>) -> u64 {
    match r {
        Ok(_) => 1,
        Err(PanicClass::Injected) => 3,
        Err(PanicClass::RngFillFailed) => 4,
        Err(PanicClass::Budget) => 5,
        Err(PanicClass::Other(_)) => 6,
    }
}

/// first value of the range whose count in this census window is outside [lo_b, hi_b]
fn census_window(counts: &BTreeMap<Vec<u8>, u64>, low: &[u8], r: u64, width: usize, lo_b: u64, hi_b: u64) -> Option<(Vec<u8>, u64)> {
    for k in 0..r {
        let x = refint::add(low, &refint::from_u64(k, width));
        let c = counts.get(&x).copied().unwrap_or(0);
        if c < lo_b || c > hi_b {
            return Some((x, c));
        }
    }
    None
}

fn state_tuple(ty: u64, kind: u64, shape: u8, q: u64, fault: u64, attempts: usize, outcome: u64) -> u64 {
    let ab = match attempts {
        0 => 0,
        1 => 1,
        2 => 2,
        3..=5 => 3,
        6..=20 => 4,
        _ => 5,
    };
    let mut f = Fp::new();
    for x in [ty, kind, shape as u64, q, fault, ab, outcome] {
        f.u(x);
    }
    f.0
}

/// R2: classify a panic; returns the fault kind that fired in this call (0 none, 1 err, 2 partial, 3 panic, 4 stall)
pub(crate) fn check_panic<T>(r: &Result<T, PanicClass>, evs: &[Event], oi: usize, ci: usize, viol: &mut Vec<Violation>, counters: &mut Counters) -> u64 {
    let mut fault = 0u64;
    for e in evs {
        match (&e.resp, e.src) {
            (Resp::Err, _) => {
                bump(counters, "fault_rng_err");
                fault = 1;
            }
            (Resp::PartialErr(_), _) => {
                bump(counters, "fault_rng_partial_err");
                fault = 2;
            }
            (Resp::Panic, _) => {
                bump(counters, "fault_rng_panic");
                fault = 3;
            }
            (Resp::Ok(_), Src::Repeat) => {
                bump(counters, "fault_stall_repeat");
                if fault == 0 {
                    fault = 4;
                }
            }
            _ => {}
        }
    }
    if let Err(pc) = r {
        let had_err = evs.iter().any(|e| matches!(e.resp, Resp::Err | Resp::PartialErr(_)));
        match pc {
            PanicClass::Injected => bump(counters, "probe_injected_panic_propagated"),
            PanicClass::RngFillFailed if had_err => bump(counters, "probe_err_surfaced_as_rand_panic"),
            PanicClass::RngFillFailed => viol.push(Violation { class: "panic", op: oi, call: ci, detail: "\"Rng::fill failed\" although the RNG never reported an error".into() }),
            PanicClass::Budget => {
                let fresh: usize = evs.iter().filter(|e| e.src == Src::Fresh).map(|e| e.req as usize).sum();
                viol.push(Violation { class: "no_return", op: oi, call: ci, detail: format!("call did not return after {} draw requests that delivered {} bytes of fresh uniform data (cut-off: 1000 x the call's natural volume)", evs.len(), fresh) });
            }
            // a panic in a call during which the RNG reported failure is the error surfacing (whatever the
            // message); nothing more is asserted about such a call
            PanicClass::Other(_) if had_err => bump(counters, "probe_err_surfaced_as_other_panic"),
            PanicClass::Other(m) => viol.push(Violation { class: "panic", op: oi, call: ci, detail: format!("panicked: {}", m) }),
        }
    }
    fault
}

#[allow(clippy::too_many_arguments)]
fn finish_call(fp: &mut Fp, evs: &[Event], counters: &mut Counters, log: &mut Vec<String>, want_log: bool, oi: usize, ci: usize, op: &Op, outcome: &Result<String, PanicClass>) {
    for e in evs {
        fp.u(e.method as u64 ^ ((e.req as u64) << 8));
        match &e.resp {
            Resp::Ok(b) => fp.b(b),
            Resp::Err => fp.u(1),
            Resp::PartialErr(b) => {
                fp.u(2);
                fp.b(b)
            }
            Resp::Panic => fp.u(3),
        }
        *counters.entry("draw_requests").or_insert(0) += 1;
    }
    match outcome {
        Ok(_) => fp.u(0x0C),
        Err(pc) => fp.u(0xE0 + outcome_class::<()>(&Err(pc.clone()))),
    }
    if want_log {
        for e in evs {
            let r = match &e.resp {
                Resp::Ok(b) => format!("ok {}", hex(b)),
                Resp::Err => "ERR".into(),
                Resp::PartialErr(b) => format!("PARTIAL_ERR wrote {}", hex(b)),
                Resp::Panic => "PANIC".into(),
            };
            log.push(format!("op {} call {} draw {}: {}({}) -> {} [{:?}]", oi, ci, e.attempt, e.method.name(), e.req, r, e.src));
        }
        log.push(format!("op {} call {} {}{}: {:?}", oi, ci, op.kind_name(), if op.dynamic { " (dyn)" } else { "" }, outcome));
    }
}

pub fn set_in_sim(v: bool) {
    IN_SIM.with(|c| c.set(v));
}

pub fn take_last_panic() -> String {
    LAST_PANIC.with(|p| p.borrow_mut().take()).unwrap_or_default()
}

/// is the spec well-formed for this type (operand widths, non-empty ranges)? Used by the minimiser so
/// that a candidate never trips rand's own "empty range" assertion.
pub fn valid(spec: &RunSpec, ty: &dyn TyObj) -> bool {
    if !spec.tasks.is_empty() {
        let menu = crate::types::global_menu();
        return spec.tasks.iter().all(|t| match crate::types::by_name(menu, &t.ty) {
            Some(tt) => valid_ops(&t.ops, tt),
            None => false,
        });
    }
    valid_ops(&spec.ops, ty)
}

fn valid_ops(ops: &[Op], ty: &dyn TyObj) -> bool {
    use std::cmp::Ordering::*;
    let w = ty.bytes();
    for op in ops {
        match &op.kind {
            OpKind::GenRange { low, high, inclusive } | OpKind::Single { low, high, inclusive, .. } | OpKind::Uniform { low, high, inclusive, .. } | OpKind::FibreWalk { low, high, inclusive, .. } | OpKind::SpanProbe { low, high, inclusive, .. } | OpKind::Census { low, high, inclusive, .. } => {
                if low.len() != w || high.len() != w {
                    return false;
                }
                if let OpKind::SpanProbe { targets, .. } = &op.kind {
                    if targets.iter().any(|t| t.len() != w) {
                        return false;
                    }
                }
                if let OpKind::FibreWalk { start, .. } = &op.kind {
                    if start.len() != w {
                        return false;
                    }
                }
                let c = refint::cmp(ty.signed(), low, high);
                if c == Greater || (c == Equal && !*inclusive) {
                    return false;
                }
            }
            _ => {}
        }
    }
    true
}

#[cfg(test)]
mod tests {
    use super::*;
    use Method::*;
    #[test]
    fn refines_cases() {
        let d = |v: &'static [(Method, &'static [u8])]| v.to_vec();
        assert!(refines(b"abcd", &d(&[(TryFillBytes, b"abcd")])));
        assert!(refines(b"abcd", &d(&[(TryFillBytes, b"ab"), (FillBytes, b"cd")])));
        assert!(refines(b"ab", &d(&[(NextU32, b"a\0\0\0"), (NextU32, b"b\0\0\0")])));
        assert!(refines(b"ab", &d(&[(TryFillBytes, b"abzz")]))); // over-read, tail discarded
        assert!(refines(b"ab", &d(&[(TryFillBytes, b"zz"), (TryFillBytes, b"ab")]))); // a request wholly unused
        assert!(!refines(b"ab", &d(&[(NextU32, b"zzzz"), (NextU32, b"abzz")]))); // a word request must contribute
        assert!(!refines(b"ab\0", &d(&[(TryFillBytes, b"ab")]))); // a byte never delivered
        assert!(!refines(b"ba", &d(&[(TryFillBytes, b"ab")])));
        assert!(!refines(b"a", &d(&[])));
        assert!(refines(b"", &d(&[])));
        assert!(refines(b"aab", &d(&[(TryFillBytes, b"aa"), (TryFillBytes, b"ab")]))); // needs backtracking: "a" + "ab"
        let many: Vec<(Method, &[u8])> = (0..100_000).map(|_| (TryFillBytes, &b"x"[..])).collect();
        assert!(refines(&vec![b'x'; 100_000], &many));
        assert!(!refines(&vec![b'x'; 100_001], &many));
    }
}
