//! Minimiser: shrink a failing RunSpec while the SAME violation class persists. Every candidate is a
//! complete explicit spec executed by the ordinary executor, so the result replays exactly.

use crate::exec::{run, valid};
use crate::refint;
use crate::simrng::Plan;
use crate::spec::{OpKind, RunSpec};
use crate::types::{by_name, TyObj};

pub struct Shrinker<'a> {
    pub menu: &'a [Box<dyn TyObj>],
    pub class: String,
    pub execs: usize,
    pub max_execs: usize,
    /// wall-clock cap for one minimisation (a run with a 32 MiB fill or a 100 000-draw stall costs a second per execution)
    pub started: std::time::Instant,
}

impl<'a> Shrinker<'a> {
    pub fn fails(&mut self, s: &RunSpec) -> bool {
        let Some(ty) = by_name(self.menu, &s.ty) else { return false };
        if !valid(s, ty) {
            return false;
        }
        self.execs += 1;
        run(s, ty, false).violations.iter().any(|v| v.class == self.class)
    }

    fn budget(&self) -> bool {
        self.execs < self.max_execs && self.started.elapsed().as_secs() < 90
    }

    /// interleaved-tasks runs: shorter schedule, fewer tasks, ops, calls and planned responses
    fn shrink_tasks(&mut self, orig: &RunSpec) -> RunSpec {
        let mut cur = orig.clone();
        // schedule: empty, then halves, then single entries
        let mut c = cur.clone();
        c.schedule.clear();
        if self.fails(&c) {
            cur = c;
        }
        let mut chunk = cur.schedule.len() / 2;
        while chunk >= 1 && self.budget() {
            let mut st = 0;
            while st < cur.schedule.len() && self.budget() {
                let mut c = cur.clone();
                let en = (st + chunk).min(c.schedule.len());
                c.schedule.drain(st..en);
                if self.fails(&c) {
                    cur = c;
                } else {
                    st += chunk;
                }
            }
            chunk /= 2;
        }
        // tasks
        let mut ti = 0;
        while ti < cur.tasks.len() && cur.tasks.len() > 1 && self.budget() {
            let mut c = cur.clone();
            c.tasks.remove(ti);
            c.ty = c.tasks[0].ty.clone();
            if self.fails(&c) {
                cur = c;
            } else {
                ti += 1;
            }
        }
        // ops, calls, planned responses
        for ti in 0..cur.tasks.len() {
            let mut oi = 0;
            while oi < cur.tasks[ti].ops.len() && self.budget() {
                let mut c = cur.clone();
                c.tasks[ti].ops.remove(oi);
                if self.fails(&c) {
                    cur = c;
                } else {
                    oi += 1;
                }
            }
            for oi in 0..cur.tasks[ti].ops.len() {
                let mut ci = 0;
                while ci < cur.tasks[ti].ops[oi].calls.len() && cur.tasks[ti].ops[oi].calls.len() > 1 && self.budget() {
                    let mut c = cur.clone();
                    c.tasks[ti].ops[oi].calls.remove(ci);
                    if self.fails(&c) {
                        cur = c;
                    } else {
                        ci += 1;
                    }
                }
                for ci in 0..cur.tasks[ti].ops[oi].calls.len() {
                    let mut k = 0;
                    while k < cur.tasks[ti].ops[oi].calls[ci].len() && self.budget() {
                        let mut c = cur.clone();
                        c.tasks[ti].ops[oi].calls[ci].remove(k);
                        if self.fails(&c) {
                            cur = c;
                        } else {
                            k += 1;
                        }
                    }
                }
                if cur.tasks[ti].ops[oi].dynamic {
                    let mut c = cur.clone();
                    c.tasks[ti].ops[oi].dynamic = false;
                    if self.fails(&c) {
                        cur = c;
                    }
                }
            }
        }
        // schedule once more (fewer scheduling points now), entry by entry
        let mut k = 0;
        while k < cur.schedule.len() && self.budget() {
            let mut c = cur.clone();
            c.schedule.remove(k);
            if self.fails(&c) {
                cur = c;
            } else {
                k += 1;
            }
        }
        cur
    }

    pub fn shrink(&mut self, orig: &RunSpec) -> RunSpec {
        if !orig.tasks.is_empty() {
            return self.shrink_tasks(orig);
        }
        let ty = by_name(self.menu, &orig.ty).expect("type");
        // 0. explicit form: every served response written out
        let mat = run(orig, ty, false).materialised;
        let mut cur = if self.fails(&mat) { mat } else { orig.clone() };

        // 1. a single op, if one suffices
        for i in 0..cur.ops.len() {
            let mut c = cur.clone();
            c.ops = vec![cur.ops[i].clone()];
            if c.ops != cur.ops && self.fails(&c) {
                cur = c;
                break;
            }
        }
        // 2. drop ops one at a time
        let mut i = 0;
        while i < cur.ops.len() && cur.ops.len() > 1 && self.budget() {
            let mut c = cur.clone();
            c.ops.remove(i);
            if self.fails(&c) {
                cur = c;
            } else {
                i += 1;
            }
        }
        // 3. drop calls: halves first, then singles
        for oi in 0..cur.ops.len() {
            let mut chunk = cur.ops[oi].calls.len() / 2;
            while chunk >= 1 && self.budget() {
                let mut st = 0;
                while st < cur.ops[oi].calls.len() && cur.ops[oi].calls.len() > 1 && self.budget() {
                    let mut c = cur.clone();
                    let en = (st + chunk).min(c.ops[oi].calls.len());
                    if en - st >= c.ops[oi].calls.len() {
                        break;
                    }
                    c.ops[oi].calls.drain(st..en);
                    if self.fails(&c) {
                        cur = c;
                    } else {
                        st += chunk;
                    }
                }
                chunk /= 2;
            }
        }
        // 4. drop planned responses inside calls (faults, repeats, spare words)
        for oi in 0..cur.ops.len() {
            for ci in 0..cur.ops[oi].calls.len() {
                let mut k = 0;
                while k < cur.ops[oi].calls[ci].len() && self.budget() {
                    let mut c = cur.clone();
                    c.ops[oi].calls[ci].remove(k);
                    if self.fails(&c) {
                        cur = c;
                    } else {
                        k += 1;
                    }
                }
            }
        }
        // 5. simpler op parameters
        for oi in 0..cur.ops.len() {
            if cur.ops[oi].dynamic {
                let mut c = cur.clone();
                c.ops[oi].dynamic = false;
                if self.fails(&c) {
                    cur = c;
                }
            }
            if let OpKind::Fill { len, .. } | OpKind::FillVsElem { len, .. } = cur.ops[oi].kind.clone() {
                let mut cands: Vec<usize> = (0..len.min(6)).collect();
                let mut h = len / 2;
                while h > 5 {
                    cands.push(len - h);
                    h /= 2;
                }
                cands.sort_unstable();
                cands.dedup();
                for nl in cands {
                    if !self.budget() {
                        break;
                    }
                    let mut c = cur.clone();
                    match &mut c.ops[oi].kind {
                        OpKind::Fill { len, .. } | OpKind::FillVsElem { len, .. } => *len = nl,
                        _ => {}
                    }
                    if self.fails(&c) {
                        cur = c;
                        break;
                    }
                }
            }
        }
        // span probes: keep only the values needed to show the difference
        for oi in 0..cur.ops.len() {
            let n = if let OpKind::SpanProbe { targets, .. } = &cur.ops[oi].kind { targets.len() } else { 0 };
            let mut k = 0;
            let mut left = n;
            while k < left && left > 2 && self.budget() {
                let mut c = cur.clone();
                if let OpKind::SpanProbe { targets, .. } = &mut c.ops[oi].kind {
                    targets.remove(k);
                }
                if self.fails(&c) {
                    cur = c;
                    left -= 1;
                } else {
                    k += 1;
                }
            }
        }
        for oi in 0..cur.ops.len() {
            if let OpKind::Fill { front, .. } = &cur.ops[oi].kind {
                if *front > 0 {
                    let mut c = cur.clone();
                    if let OpKind::Fill { front, .. } = &mut c.ops[oi].kind {
                        *front = 0;
                    }
                    if self.fails(&c) {
                        cur = c;
                    }
                }
            }
        }
        if cur.infallible {
            let mut c = cur.clone();
            c.infallible = false;
            if self.fails(&c) {
                cur = c;
            }
        }
        // 6. the smallest type of the menu on which it still fails (operands and words truncated)
        let signed = by_name(self.menu, &cur.ty).unwrap().signed();
        let cur_bytes = by_name(self.menu, &cur.ty).unwrap().bytes();
        let mut cands: Vec<&dyn TyObj> = self.menu.iter().map(|b| &**b).filter(|t| t.signed() == signed && t.bytes() < cur_bytes).collect();
        cands.sort_by_key(|t| (t.bytes(), t.digit_bytes()));
        for t in cands {
            if !self.budget() {
                break;
            }
            let c = retype(&cur, t, signed);
            if self.fails(&c) {
                cur = c;
                break;
            }
        }
        // 7. clear bytes of bounds and words toward zero
        let nops = cur.ops.len();
        for oi in 0..nops {
            // bounds
            for which in 0..2 {
                let n = match &cur.ops[oi].kind {
                    OpKind::GenRange { low, .. } | OpKind::Single { low, .. } | OpKind::Uniform { low, .. } => low.len(),
                    _ => 0,
                };
                for bi in (0..n).rev() {
                    if !self.budget() {
                        break;
                    }
                    let mut c = cur.clone();
                    let changed = match &mut c.ops[oi].kind {
                        OpKind::GenRange { low, high, .. } | OpKind::Single { low, high, .. } | OpKind::Uniform { low, high, .. } => {
                            let t = if which == 0 { low } else { high };
                            let old = t[bi];
                            t[bi] = 0;
                            old != 0
                        }
                        _ => false,
                    };
                    if changed && self.fails(&c) {
                        cur = c;
                    }
                }
            }
            // words
            for ci in 0..cur.ops[oi].calls.len() {
                for k in 0..cur.ops[oi].calls[ci].len() {
                    let n = if let Plan::Fixed(b) = &cur.ops[oi].calls[ci][k] { b.len() } else { 0 };
                    if n == 0 || n > 64 {
                        continue;
                    }
                    for bi in (0..n).rev() {
                        if !self.budget() {
                            break;
                        }
                        let mut c = cur.clone();
                        let mut changed = false;
                        if let Plan::Fixed(b) = &mut c.ops[oi].calls[ci][k] {
                            changed = b[bi] != 0;
                            b[bi] = 0;
                        }
                        if changed && self.fails(&c) {
                            cur = c;
                        }
                    }
                }
            }
        }
        cur
    }
}

fn retype(s: &RunSpec, t: &dyn TyObj, signed: bool) -> RunSpec {
    let w = t.bytes();
    let mut c = s.clone();
    c.ty = t.name().to_string();
    for op in c.ops.iter_mut() {
        match &mut op.kind {
            OpKind::GenRange { low, high, .. } | OpKind::Single { low, high, .. } | OpKind::Uniform { low, high, .. } => {
                *low = refint::resize(low, w, signed);
                *high = refint::resize(high, w, signed);
            }
            _ => {}
        }
        for call in op.calls.iter_mut() {
            for p in call.iter_mut() {
                if let Plan::Fixed(b) = p {
                    b.truncate(w.max(1) * 16);
                }
            }
        }
    }
    c
}
