//! Seeded workload generator (swarm style): one seed -> one RunSpec. Every choice is drawn from one Prng.

use crate::prng::Prng;
use crate::refint;
use crate::simrng::Plan;
use crate::spec::{Op, OpKind, RunSpec, Task};
use crate::types::{Ctor, FillVia, TyObj};
use std::cmp::Ordering;

/// per-run swarm configuration
struct Swarm {
    fault_err: bool,
    fault_partial: bool,
    fault_panic: bool,
    fault_stall: bool,
    /// per-call probability (in 1/256) that an enabled fault is planned
    fault_rate: u64,
    /// weights of first-word sources: fresh, extreme
    w_fresh: u32,
    w_extreme: u32,
    /// words aimed at fibre boundaries among the first words of range calls
    w_aimed: bool,
    dyn_rate: u64, // in 1/4
}

pub fn pick_type(p: &mut Prng, menu: &[Box<dyn TyObj>]) -> usize {
    // favour small and medium widths; keep the N^2-cost giants rare
    let w: Vec<u32> = menu
        .iter()
        .map(|t| match t.bytes() {
            0..=4 => 60,
            5..=16 => 50,
            17..=64 => 40,
            65..=160 => 16,
            161..=512 => 4,
            _ => 1,
        })
        .collect();
    p.weighted(&w)
}

/// extreme words of `w` bytes (little-endian), `db` = digit size of the type under test
pub fn extreme_word(p: &mut Prng, w: usize, db: usize) -> Vec<u8> {
    let bits = (w * 8) as u64;
    let mut v = vec![0u8; w];
    match p.below(12) {
        0 => {}
        1 => v.iter_mut().for_each(|x| *x = 0xFF),
        2 => v[0] = 1,
        3 => {
            v.iter_mut().for_each(|x| *x = 0xFF);
            v[0] = 0xFE;
        }
        4 => v[w - 1] = 0x80,
        5 => {
            v.iter_mut().for_each(|x| *x = 0xFF);
            v[w - 1] = 0x7F;
        }
        6 => {
            let b = p.below(bits) as usize;
            v[b / 8] |= 1 << (b % 8);
        }
        7 => {
            v.iter_mut().for_each(|x| *x = 0xFF);
            let b = p.below(bits) as usize;
            v[b / 8] &= !(1 << (b % 8));
        }
        8 => v = refint::from_u64(p.below(7), w),
        9 => {
            v.iter_mut().for_each(|x| *x = 0xFF);
            v = refint::add_small(&v, -(p.below(7) as i64));
        }
        10 => {
            // whole digits of 00 / FF followed by random ones
            let k = (p.below((w / db) as u64 + 1) as usize) * db;
            let f = if p.chance(1, 2) { 0xFF } else { 0 };
            p.fill(&mut v);
            for x in v[..k.min(w)].iter_mut() {
                *x = f;
            }
        }
        _ => {
            // random low digits, whole high digits of 00 / FF
            let k = (p.below((w / db) as u64 + 1) as usize) * db;
            let f = if p.chance(1, 2) { 0xFF } else { 0 };
            p.fill(&mut v);
            for x in v[k.min(w)..].iter_mut() {
                *x = f;
            }
        }
    }
    v
}

/// random value in 0..=m (m as LE bytes), biased: uniform-ish, or close to either end
pub fn below_incl(p: &mut Prng, m: &[u8]) -> Vec<u8> {
    let w = m.len();
    if refint::is_zero(m) {
        return vec![0u8; w];
    }
    match p.below(4) {
        0 => {
            // near 0
            let t = refint::from_u64(p.below(7), w);
            if refint::ucmp(&t, m) == Ordering::Greater { vec![0u8; w] } else { t }
        }
        1 => {
            // near m
            let t = refint::from_u64(p.below(7), w);
            if refint::ucmp(&t, m) == Ordering::Greater { m.to_vec() } else { refint::sub(m, &t) }
        }
        _ => {
            let mut t = p.bytes(w);
            if refint::ucmp(&t, m) == Ordering::Greater {
                // mask below the top bit of m: guaranteed < m
                let bl = refint::bit_len(m);
                for (i, x) in t.iter_mut().enumerate() {
                    let lo = i * 8;
                    if lo >= bl - 1 {
                        *x = 0;
                    } else if lo + 8 > bl - 1 {
                        *x &= (1u16 << (bl - 1 - lo)) as u8 - 1;
                    }
                }
            }
            t
        }
    }
}

/// range size r in 1..=2^W-1 as W bytes, or None for the full range; returns (r, shape id)
fn gen_rsize(p: &mut Prng, w: usize, db: usize, shape_w: &[u32]) -> (Option<Vec<u8>>, u8) {
    let bits = (w * 8) as u64;
    let shape = p.weighted(shape_w) as u8;
    let one = refint::from_u64(1, w);
    let r = match shape {
        0 => Some(refint::from_u64(1, w)),
        1 => Some(refint::from_u64(2 + p.below(2), w)),
        2 => {
            // 2^k
            let k = p.below(bits) as usize;
            let mut v = vec![0u8; w];
            v[k / 8] = 1 << (k % 8);
            Some(v)
        }
        3 => {
            // 2^k +- 1
            let k = 1 + p.below(bits - 1) as usize;
            let mut v = vec![0u8; w];
            v[k / 8] = 1 << (k % 8);
            Some(if p.chance(1, 2) { refint::add(&v, &one) } else { refint::sub(&v, &one) })
        }
        4 => {
            // fits one digit
            let mut v = vec![0u8; w];
            p.fill(&mut v[..db.min(w)]);
            if refint::is_zero(&v) {
                v[0] = 5;
            }
            Some(v)
        }
        5 => {
            // digit boundary +- small
            let nd = w / db;
            if nd < 2 {
                Some(refint::from_u64(200 + p.below(56), w))
            } else {
                let k = (1 + p.below(nd as u64 - 1) as usize) * db;
                let mut v = vec![0u8; w];
                v[k] = 1;
                Some(refint::add_small(&v, p.range(0, 4) as i64 - 2))
            }
        }
        6 | 7 => {
            // floor(2^W/q) - t for q in 1..=8, t spread over the whole interval (2^W/(q+1), 2^W/q]
            let q = 1 + p.below(8);
            let hi = if q == 1 { vec![0xFFu8; w] } else { refint::pow2_div_small(w, q, 0) };
            let lo = refint::add_small(&refint::pow2_div_small(w, q + 1, 0), 1);
            if refint::ucmp(&lo, &hi) == Ordering::Greater {
                Some(hi)
            } else {
                let span = refint::sub(&hi, &lo);
                let t = below_incl(p, &span);
                Some(refint::sub(&hi, &t))
            }
        }
        8 => Some(vec![0xFFu8; w]), // 2^W - 1
        9 => None,                  // full range
        10 => {
            // uniformly random size
            let mut v = p.bytes(w);
            if refint::is_zero(&v) {
                v[0] = 1;
            }
            Some(v)
        }
        13 => {
            // a run of ones: 2^k - 2^j  (k > j)
            let k = 1 + p.below(bits) as usize; // 1..=bits (k = bits means the run reaches the top)
            let j = p.below(k as u64) as usize;
            let mut v = vec![0u8; w];
            for b in j..k {
                v[b / 8] |= 1 << (b % 8);
            }
            Some(v)
        }
        14 => {
            // digit pattern: every digit independently zero, all-ones or random
            let mut v = vec![0u8; w];
            for d in 0..w / db {
                match p.below(20) {
                    0..=5 => {}
                    6..=14 => v[d * db..(d + 1) * db].iter_mut().for_each(|x| *x = 0xFF),
                    _ => p.fill(&mut v[d * db..(d + 1) * db]),
                }
            }
            if refint::is_zero(&v) {
                v[0] = 0xFF;
            }
            Some(v)
        }
        12 => {
            // log-uniform: bit length uniform in 1..=bits, top bit set, the rest random
            let l = 1 + p.below(bits) as usize;
            let mut v = p.bytes(w);
            for (i, x) in v.iter_mut().enumerate() {
                let lo = i * 8;
                if lo >= l {
                    *x = 0;
                } else if lo + 8 > l {
                    *x &= ((1u16 << (l - lo)) - 1) as u8;
                }
            }
            v[(l - 1) / 8] |= 1 << ((l - 1) % 8);
            Some(v)
        }
        _ => {
            // small: 3..=40
            Some(refint::from_u64(3 + p.below(38), w))
        }
    };
    match r {
        Some(v) if refint::is_zero(&v) => (Some(one), shape),
        o => (o, shape),
    }
}

/// bounds (low, high_inclusive) for a range of size r, by position shape
fn place(p: &mut Prng, w: usize, db: usize, signed: bool, r: &Option<Vec<u8>>) -> (Vec<u8>, Vec<u8>) {
    let min = refint::min_value(w, signed);
    let max = refint::max_value(w, signed);
    let Some(r) = r else { return (min, max) };
    let rm1 = refint::sub(r, &refint::from_u64(1, w));
    // offsets from MIN: u_low in 0..=M where M = 2^W - r
    let m = refint::sub(&vec![0u8; w], r); // 2^W - r mod 2^W (r >= 1 so this is exact unless r = 2^W)
    let u_low = match p.below(8) {
        0 => vec![0u8; w],  // at MIN
        1 => m.clone(),     // high == MAX
        2 | 3 => {
            // low = 0 (or spanning zero for signed): offset of zero from MIN is 2^(W-1) for signed, 0 for unsigned
            let zero_off = refint::sub(&vec![0u8; w], &min);
            let back = if signed && p.chance(2, 3) { below_incl(p, &rm1) } else { vec![0u8; w] };
            let cand = if refint::ucmp(&back, &zero_off) == Ordering::Greater { vec![0u8; w] } else { refint::sub(&zero_off, &back) };
            if refint::ucmp(&cand, &m) == Ordering::Greater { m.clone() } else { cand }
        }
        4 | 5 => {
            // low just below a digit boundary so that low + offset carries
            let nd = w / db;
            if nd < 2 {
                below_incl(p, &m)
            } else {
                let k = (1 + p.below(nd as u64 - 1) as usize) * db;
                let mut v = vec![0u8; w];
                v[k] = 1;
                let v = refint::sub(&v, &refint::from_u64(1 + p.below(4), w));
                // interpret v as the value; offset = v - MIN
                let off = refint::sub(&v, &min);
                if refint::ucmp(&off, &m) == Ordering::Greater { below_incl(p, &m) } else { off }
            }
        }
        _ => below_incl(p, &m),
    };
    let low = refint::add(&min, &u_low);
    let high = refint::add(&low, &rm1);
    debug_assert!(refint::cmp(signed, &low, &high) != Ordering::Greater);
    (low, high)
}

/// API-level bounds for an op: (low, high, inclusive)
fn api_bounds(p: &mut Prng, w: usize, signed: bool, low: Vec<u8>, high_incl: Vec<u8>) -> (Vec<u8>, Vec<u8>, bool) {
    let max = refint::max_value(w, signed);
    if high_incl == max || p.chance(1, 2) {
        (low, high_incl, true)
    } else {
        let h = refint::add_small(&high_incl, 1);
        (low, h, false)
    }
}

fn fault_plan(p: &mut Prng, sw: &Swarm) -> Option<Plan> {
    if !p.chance(sw.fault_rate, 256) {
        return None;
    }
    let mut opts = Vec::new();
    if sw.fault_err {
        opts.push(0);
    }
    if sw.fault_partial {
        opts.push(1);
    }
    if sw.fault_panic {
        opts.push(2);
    }
    if opts.is_empty() {
        return None;
    }
    Some(match opts[p.below(opts.len() as u64) as usize] {
        0 => Plan::Err,
        1 => Plan::PartialErr(p.below(256) as u8),
        _ => Plan::Panic,
    })
}

/// A word aimed at the boundary between two fibres under the multiply-shift reading of a range of `r` values over
/// `w`-byte words: the last word of a fibre (ceil(k * 2^W / r) - 1, the word a rejection threshold is about), the
/// first word of the next one, or a neighbour of either. For any other kind of sampler it is just one more word.
pub fn aimed_word(p: &mut Prng, w: usize, r: &[u8]) -> Vec<u8> {
    let rm1 = refint::add_small(r, -1);
    // k in 1..=r: start of fibre k (k = r: one past the last word)
    let k = refint::add_small(&below_incl(p, &rm1), 1);
    let mut kk = vec![0u8; w + 1];
    kk[..w].copy_from_slice(&k);
    if refint::is_zero(&k) {
        kk[w] = 1; // r = 2^W cannot occur here (r has w bytes); k wrapped only if r - 1 = MAX
    }
    let start = refint::fibre_start(&kk, r, w).unwrap_or_else(|| vec![0u8; w]);
    let d = [-1i64, -1, -1, 0, 0, -2, 1, -3][p.below(8) as usize];
    refint::add_small(&start, d)
}

fn first_word(p: &mut Prng, sw: &Swarm, w: usize, db: usize, aim: Option<&Vec<u8>>) -> Plan {
    // aimed words cost a w-byte division each: frequent on small types, rare on big ones, never on the giants
    let w_aimed = match (aim, w) {
        (None, _) => 0,
        (_, 0..=16) => 3,
        (_, 17..=64) => 2,
        (_, 65..=160) => 1,
        _ => 0,
    };
    match p.weighted(&[sw.w_fresh * 2, sw.w_extreme * 2, if sw.w_aimed { w_aimed } else { 0 }]) {
        0 => Plan::Fresh,
        1 => Plan::Fixed(extreme_word(p, w, db)),
        _ => Plan::Fixed(aimed_word(p, w, aim.unwrap())),
    }
}

/// response plan for one call of a range entry point
fn range_call_plan(p: &mut Prng, sw: &Swarm, w: usize, db: usize, aim: Option<&Vec<u8>>) -> Vec<Plan> {
    let mut plan = Vec::new();
    let f = fault_plan(p, sw);
    // faults land inside the call: on the first draw, or right after a (possible) rejection
    let fault_at = if p.chance(1, 2) { 0 } else { 1 + p.below(2) as usize };
    let lead = 1 + p.below(3) as usize;
    let mut long_stall_used = false;
    for i in 0..lead {
        if let (Some(fp), true) = (&f, i == fault_at) {
            plan.push(fp.clone());
        }
        plan.push(first_word(p, sw, w, db, aim));
        if sw.fault_stall && p.chance(1, 6) && !long_stall_used {
            // how long the source stays stuck on the rejected word; occasionally very long (a retry cap in the
            // sampler, if there were one, would be crossed)
            let k = match p.below(40) {
                0..=9 => 1,
                10..=19 => 1 + p.below(4),
                20..=29 => 1 + p.below(16),
                30..=37 => 1 + p.below(64),
                38 => 65 + p.below(240),
                _ => [99, 100, 101, 127, 128, 129, 255, 256, 257, 999, 1000, 1001, 1023, 1024, 1025][p.below(15) as usize],
            };
            let k = if w > 160 { k.min(12) } else { k };
            long_stall_used = k > 64;
            if w <= 8 && p.chance(1, 400) {
                // a stuck source for tens of thousands of draws (a retry cap at a power of two, say)
                let n = [32767u32, 32768, 32769, 65534, 65535, 65536, 65537, 100_000, 131_072][p.below(9) as usize];
                plan.push(Plan::RepeatN(n));
                long_stall_used = true;
            } else {
                for _ in 0..k {
                    plan.push(Plan::Repeat);
                }
            }
        }
    }
    if let Some(fp) = &f {
        if fault_at >= lead {
            plan.push(fp.clone());
        }
    }
    plan
}

fn fill_call_plan(p: &mut Prng, sw: &Swarm, w: usize, db: usize) -> Vec<Plan> {
    // the current implementation makes one request per fill; a chunking implementation would make several,
    // so answers (and faults) are planned for the first few requests — unserved entries are simply dropped
    let mut plan = Vec::new();
    let n = if p.chance(1, 3) { 1 } else { 1 + p.below(6) as usize };
    let f = fault_plan(p, sw);
    let fault_at = if p.chance(1, 2) { 0 } else { p.below(n as u64 + 1) as usize };
    let mut more_faults = if f.is_some() && p.chance(1, 4) { p.below(3) } else { 0 };
    // a burst of consecutive failures (a retrying implementation sees the error again and again)
    let burst = if p.chance(1, 3) { 2 + p.below(3) as usize } else { 1 };
    for i in 0..n {
        if let (Some(fp), true) = (&f, i == fault_at) {
            for _ in 0..burst {
                plan.push(fp.clone());
            }
        } else if i > fault_at && more_faults > 0 && p.chance(1, 2) {
            more_faults -= 1;
            plan.push(f.clone().unwrap());
        }
        plan.push(first_word(p, sw, w, db, None));
    }
    if let (Some(fp), true) = (&f, fault_at >= n) {
        for _ in 0..burst {
            plan.push(fp.clone());
        }
    }
    plan
}

pub fn make_run(seed: u64, run: u64, menu: &[Box<dyn TyObj>]) -> RunSpec {
    let s = crate::prng::mix(seed, run);
    let mut p = Prng::new(s);
    let mut ti = pick_type(&mut p, menu);
    let mode = match p.below(80) {
        0..=23 => 1u8,  // cluster run
        24..=37 => 2,   // fault-free twin of the mixed workload
        38 | 39 => 3,   // fibre walk: exact fibre sizes at any width
        40 | 41 => 4,   // span probe: exact block sizes of chosen values when fibres are huge
        42 => 5,        // census: every value of a small range turns up, none absurdly often
        43..=45 => 6,   // interleaved tasks: results must not depend on the schedule
        46..=53 => 7,   // division hunt: two-target span probes through the Uniform constructor on small multi-digit types
        _ => 0,         // mixed workload with faults
    };
    if mode == 6 {
        return tasks_run(seed, run, &mut p, menu);
    }
    // Span probes are the only two-sided oracle for multi-digit types with 64-bit digits (no sweep can reach them and
    // the pinned suite builds 64-bit digits with N = 1 only), so half of the span-probe runs go to those types.
    if mode == 4 && p.chance(1, 2) {
        let cands: Vec<usize> = (0..menu.len()).filter(|&i| menu[i].digit_bytes() == 8 && menu[i].bytes() >= 16 && menu[i].bytes() <= 160).collect();
        if !cands.is_empty() {
            ti = cands[p.below(cands.len() as u64) as usize];
        }
    }
    // one census in six hundred is a soak: one to two million calls on a small type, evaluated window by window
    // (behaviour that changes after very many calls)
    let soak = mode == 5 && p.chance(1, 600);
    if soak {
        let cands: Vec<usize> = (0..menu.len()).filter(|&i| menu[i].bytes() <= 2).collect();
        ti = cands[p.below(cands.len() as u64) as usize];
    }
    if mode == 7 {
        // the constructor's division is the only multi-digit division behind C20; at these widths a block measurement
        // costs a few hundred calls, so many range sizes can be tried
        let cands: Vec<usize> = (0..menu.len()).filter(|&i| menu[i].bytes() <= 24 && menu[i].bytes() / menu[i].digit_bytes() >= 2).collect();
        ti = cands[p.below(cands.len() as u64) as usize];
    }
    let ty = &menu[ti];
    let (w, db, signed) = (ty.bytes(), ty.digit_bytes(), ty.signed());
    // the giants (> 1280 bits) cost up to milliseconds per call: no bisection or walking, short stalls
    let mode = if w > 160 && mode >= 3 { 1 } else { mode };
    let faults_on = mode == 0;
    let sw = Swarm {
        fault_err: faults_on && p.chance(1, 2),
        fault_partial: faults_on && p.chance(1, 2),
        fault_panic: faults_on && p.chance(1, 2),
        fault_stall: mode != 2 && p.chance(1, 2),
        fault_rate: [8, 20, 40][p.below(3) as usize],
        w_fresh: [1, 4, 8][p.below(3) as usize],
        w_extreme: [0, 1, 4][p.below(3) as usize],
        w_aimed: p.chance(2, 3),
        dyn_rate: [0, 0, 1, 4][p.below(4) as usize],
    };
    // per-run weights over the bound shapes (swarm): a random subset is switched off
    let mut shape_w = [6u32, 5, 5, 6, 5, 6, 14, 14, 3, 5, 6, 6, 8, 5, 7];
    for x in shape_w.iter_mut() {
        if p.chance(1, 4) {
            *x = 0;
        }
    }
    if shape_w.iter().all(|&x| x == 0) {
        shape_w[6] = 1;
    }
    let infallible = p.chance(1, 4);
    let fresh_seed = p.next();
    // error code carried by injected RNG errors: a custom code, OS-style codes (EINTR, EIO, EAGAIN), an internal one
    let err_code = [0xC000_0007u32, 0xC000_0007, 4, 5, 11, 0x8000_0001, 0xC000_0000, 1][p.below(8) as usize];
    let mut ops = Vec::new();
    if mode == 7 {
        ops.push(div_hunt_op(&mut p, &sw, w, db, signed));
    } else if mode == 5 {
        let mut op = census_op(&mut p, &sw, w, db, signed);
        if soak {
            if let OpKind::Census { low, high, inclusive, samples, .. } = &mut op.kind {
                // a small range (windows of 128 r calls stay short)
                let r = 2 + p.below(15);
                let (l, h) = place(&mut p, w, db, signed, &Some(refint::from_u64(r, w)));
                let (l, h, inc) = api_bounds(&mut p, w, signed, l, h);
                *low = l;
                *high = h;
                *inclusive = inc;
                *samples = (1_000_000 + p.below(1_000_000)) as u32;
            }
        }
        ops.push(op);
    } else if mode == 4 {
        ops.push(span_op(&mut p, &sw, w, db, signed));
        if p.chance(1, 2) {
            ops.push(span_op(&mut p, &sw, w, db, signed));
        }
    } else if mode == 3 {
        let (a, b) = walk_ops(&mut p, &sw, w, db, signed);
        ops.push(a);
        ops.push(b);
    } else if mode == 1 {
        ops.push(cluster_op(&mut p, &sw, w, db, signed, &shape_w));
        // a second, unrelated op afterwards on the same RNG
        if p.chance(1, 3) {
            ops.push(mixed_op(&mut p, &sw, w, db, signed, &shape_w));
        }
    } else {
        let n = 1 + p.below(12);
        for _ in 0..n {
            ops.push(mixed_op(&mut p, &sw, w, db, signed, &shape_w));
        }
    }
    RunSpec { seed, run, ty: ty.name().to_string(), infallible, fresh_seed, err_code, ops, mode, tasks: Vec::new(), schedule: Vec::new() }
}

fn mixed_op(p: &mut Prng, sw: &Swarm, w: usize, db: usize, signed: bool, shape_w: &[u32]) -> Op {
    let dynamic = p.below(4) < sw.dyn_rate;
    // slice lengths for big types stay small
    let max_len = if w > 256 { 3 } else { 9 };
    match p.weighted(&[10, 14, 14, 18, 8, 4]) {
        0 => Op { kind: OpKind::Gen, dynamic, calls: (0..1 + p.below(3)).map(|_| fill_call_plan(p, sw, w, db)).collect(), shape: 0 },
        1 => {
            let (r, shape) = gen_rsize(p, w, db, shape_w);
            let (low, hi) = place(p, w, db, signed, &r);
            let (low, high, inclusive) = api_bounds(p, w, signed, low, hi);
            Op { kind: OpKind::GenRange { low, high, inclusive }, dynamic, calls: (0..1 + p.below(3)).map(|_| range_call_plan(p, sw, w, db, r.as_ref())).collect(), shape }
        }
        2 => {
            let (r, shape) = gen_rsize(p, w, db, shape_w);
            let (low, hi) = place(p, w, db, signed, &r);
            let (low, high, inclusive) = api_bounds(p, w, signed, low, hi);
            Op { kind: OpKind::Single { low, high, inclusive, by_ref: p.chance(1, 2) }, dynamic, calls: (0..1 + p.below(3)).map(|_| range_call_plan(p, sw, w, db, r.as_ref())).collect(), shape }
        }
        3 => {
            let (r, shape) = gen_rsize(p, w, db, shape_w);
            let (low, hi) = place(p, w, db, signed, &r);
            let (low, high, inclusive) = api_bounds(p, w, signed, low, hi);
            let ctor = [Ctor::Val, Ctor::Ref, Ctor::FromRange, Ctor::Sampler][p.below(4) as usize];
            Op { kind: OpKind::Uniform { low, high, inclusive, ctor }, dynamic, calls: (0..1 + p.below(8)).map(|_| range_call_plan(p, sw, w, db, r.as_ref())).collect(), shape }
        }
        4 => {
            let len = match p.below(50) {
                0..=9 => 0,
                10..=19 => 1,
                20..=46 => p.below(max_len + 1) as usize,
                47..=48 => 10 + p.below(if w > 256 { 4 } else { 40 }) as usize,
                _ => {
                    // total byte size just below / at / above a power-of-two boundary (chunked fills)
                    let b = [255usize, 256, 257, 511, 512, 513, 1023, 1024, 1025, 4095, 4096, 4097, 65535, 65536, 65537][p.below(15) as usize];
                    let l = (b + w - 1) / w;
                    if p.chance(1, 400) && w >= 16 {
                        // (elements of at least 16 bytes: the harness keeps every element as its own byte vector, and tens of millions
                        // of one-byte elements would cost gigabytes per fill)
                        // tens of megabytes (a cap on the size of one request to the operating system's entropy call)
                        let gb = [(1usize << 24) - 1, 1 << 24, (1 << 25) - 1, 1 << 25, (1 << 25) + 1, 3 << 24][p.below(6) as usize];
                        (gb + w - 1) / w + p.below(3) as usize
                    } else {
                        (l + p.below(3) as usize).saturating_sub(1).min(if w > 256 { 70 } else { 70_000 })
                    }
                }
            };
            let via = [FillVia::TryFillSlice, FillVia::TryFillSlice, FillVia::FillTrait, FillVia::RngTryFill, FillVia::RngFill][p.below(5) as usize];
            let init = [0u8, 0xFF, 0x5A][p.below(3) as usize];
            // the filled sub-slice starts 0..3 elements into its buffer (varies the alignment of the byte view)
            let front = [0usize, 0, 1, 2, 3][p.below(5) as usize];
            let vol = w * len.max(1);
            let calls = (0..1 + p.below(2))
                .map(|_| {
                    let mut plan = fill_call_plan(p, sw, vol, db);
                    // sometimes the fault is placed by volume instead: it fires on whichever request carries that byte
                    if let Some(f) = fault_plan(p, sw) {
                        if p.chance(1, 2) {
                            let at = match p.below(4) {
                                0 => vol as u64 - 1,                       // inside the last request
                                1 => (vol as u64).saturating_sub(1 + p.below(w as u64 + 1)), // inside the last element
                                _ => p.below(vol as u64),
                            };
                            // optionally a burst: the same request position fails again when retried
                            let burst = if p.chance(1, 3) { 2 + p.below(3) } else { 1 };
                            for _ in 0..burst {
                                plan.insert(0, Plan::FaultAtByte(at, Box::new(f.clone())));
                            }
                        }
                    }
                    plan
                })
                .collect();
            Op { kind: OpKind::Fill { len, init, front, via }, dynamic, calls, shape: 0 }
        }
        _ => {
            let len = if p.chance(1, 25) { 10 + p.below(if w > 256 { 4 } else { 300 }) as usize } else { p.below(max_len + 1) as usize };
            let stream = p.bytes(len * w + 8);
            Op { kind: OpKind::FillVsElem { len, stream }, dynamic, calls: vec![vec![]], shape: 0 }
        }
    }
}

/// one sampler configuration probed with a cluster of first-attempt words (preimage-bound oracle)
fn cluster_op(p: &mut Prng, sw: &Swarm, w: usize, db: usize, signed: bool, shape_w: &[u32]) -> Op {
    // concentrate on small q = floor(2^W / r): shapes 6/7, with the others mixed in
    let mut sw2 = shape_w.to_vec();
    sw2[6] += 20;
    sw2[7] += 20;
    sw2[8] += 4;
    sw2[9] += 3;
    let (r, shape) = gen_rsize(p, w, db, &sw2);
    let (low, hi) = place(p, w, db, signed, &r);
    let (low, high, inclusive) = api_bounds(p, w, signed, low, hi);
    let q = match &r {
        Some(r) => refint::pow2_div(w, r, 64).unwrap_or(64),
        None => 1,
    } as i64;
    let mut words: Vec<Vec<u8>> = Vec::new();
    // keep giants affordable: words are added in priority order and truncated to `cap`
    let cap = if w > 256 { 24 } else if w > 64 { 60 } else { 160 };
    let nbase = if w > 64 { 1 } else { 1 + p.below(3) };
    for _ in 0..nbase {
        let base = if p.chance(1, 3) { extreme_word(p, w, db) } else { p.bytes(w) };
        let span = (q + 2).min(24);
        for d in -span..=span {
            words.push(refint::add_small(&base, d));
        }
        for _ in 0..p.below(4) {
            let mut f = base.clone();
            let b = p.below((w * 8) as u64) as usize;
            f[b / 8] ^= 1 << (b % 8);
            words.push(f);
        }
        // words one range size apart (base +- k*r, wrapping): the preimages of one value under a modulo or low-bits
        // reduction, as the neighbours above are under a multiply-shift reduction
        if let Some(r) = &r {
            let (mut up, mut dn) = (base.clone(), base.clone());
            for _ in 0..(q + 1).min(5) {
                up = refint::add(&up, r);
                dn = refint::sub(&dn, r);
                words.push(up.clone());
                words.push(dn.clone());
            }
        }
    }
    // words at fibre boundaries (with large q the neighbours of a random word are all interior words)
    if let (Some(r), true) = (&r, w <= 160) {
        for _ in 0..if w <= 64 { 3 } else { 1 } {
            let a = aimed_word(p, w, r);
            words.push(refint::add_small(&a, 1));
            words.push(refint::add_small(&a, -1));
            words.push(a);
        }
    }
    for k in 0..7u64 {
        words.push(refint::from_u64(k, w));
        words.push(refint::add_small(&vec![0xFFu8; w], -(k as i64)));
    }
    for _ in 0..4 {
        words.push(extreme_word(p, w, db));
    }
    words.truncate(cap);
    let dynamic = p.below(4) < sw.dyn_rate;
    let calls: Vec<Vec<Plan>> = words.into_iter().map(|wd| vec![Plan::Fixed(wd)]).collect();
    let kind = match p.below(3) {
        0 => OpKind::GenRange { low, high, inclusive },
        1 => OpKind::Single { low, high, inclusive, by_ref: p.chance(1, 2) },
        _ => OpKind::Uniform { low, high, inclusive, ctor: [Ctor::Val, Ctor::Ref, Ctor::FromRange, Ctor::Sampler][p.below(4) as usize] },
    };
    Op { kind, dynamic, calls, shape }
}

/// bounds for a complete word-space sweep (seeded, biased to boundary shapes)
pub fn sweep_bounds(p: &mut Prng, w: usize, db: usize, signed: bool) -> (Vec<u8>, Vec<u8>) {
    let shape_w = [2u32, 4, 5, 8, 5, 6, 12, 12, 3, 3, 10, 8, 6, 4, 4];
    let (r, _) = gen_rsize(p, w, db, &shape_w);
    place(p, w, db, signed, &r)
}

/// two fibre walks over one sampler configuration with moderate q = floor(2^W / r): from a random word, and
/// from an edge of the word space (or a second random word)
fn walk_ops(p: &mut Prng, sw: &Swarm, w: usize, db: usize, signed: bool) -> (Op, Op) {
    let _ = db;
    let maxbits = if w > 160 { 4 } else if w > 64 { 6 } else if w > 16 { 9 } else { 11 };
    let bits = p.below(maxbits + 1);
    let mut qq = (1u64 << bits) + p.below(1u64 << bits);
    // q cannot exceed what the width allows with r >= 2
    if w == 1 {
        qq = qq.min(100);
    }
    let hi = if qq == 1 { vec![0xFFu8; w] } else { refint::pow2_div_small(w, qq, 0) };
    let lo = refint::add_small(&refint::pow2_div_small(w, qq + 1, 0), 1);
    let r = if refint::ucmp(&lo, &hi) == Ordering::Greater {
        hi
    } else {
        let span = refint::sub(&hi, &lo);
        let t = below_incl(p, &span);
        refint::sub(&hi, &t)
    };
    let r = if refint::is_zero(&r) { refint::from_u64(1, w) } else { r };
    let (low, high_incl) = place(p, w, db, signed, &Some(r));
    let (low, high, inclusive) = api_bounds(p, w, signed, low, high_incl);
    let via = p.below(3) as u8;
    let dynamic = p.below(4) < sw.dyn_rate;
    let mk = |p: &mut Prng, edge: bool| -> Op {
        let fibres = 2 + p.below(3) as u8;
        let (start, up) = if edge {
            if p.chance(1, 2) { (vec![0u8; w], true) } else { (vec![0xFFu8; w], false) }
        } else {
            (p.bytes(w), p.chance(1, 2))
        };
        let max_steps = ((fibres as u64 + 2) * (qq + 2) + 8) as u32;
        Op { kind: OpKind::FibreWalk { low: low.clone(), high: high.clone(), inclusive, via, start, up, fibres, max_steps }, dynamic, calls: Vec::new(), shape: 12 }
    };
    let a = mk(p, false);
    let second_edge = p.chance(1, 2);
    let b = mk(p, second_edge);
    (a, b)
}

/// one sampler configuration whose chosen values' accepted blocks are measured by bisection
fn span_op(p: &mut Prng, sw: &Swarm, w: usize, db: usize, signed: bool) -> Op {
    //            1  2..3 2^k 2^k+-1 digit dig-bdry q   q   2^W-1 full uniform small log
    let weights = [0u32, 3, 4, 8, 14, 6, 5, 5, 2, 1, 6, 10, 16, 20, 28];
    let (r, shape) = gen_rsize(p, w, db, &weights);
    let (low, high_incl) = place(p, w, db, signed, &r);
    let (low, high, inclusive) = api_bounds(p, w, signed, low, high_incl);
    let rm1 = match &r {
        Some(r) => refint::add_small(r, -1),
        None => vec![0xFFu8; w],
    };
    let mut targets: Vec<Vec<u8>> = Vec::new();
    let small = refint::to_u64(&rm1).map(|x| x < 8).unwrap_or(false);
    if small {
        for k in 0..=refint::to_u64(&rm1).unwrap() {
            targets.push(refint::from_u64(k, w));
        }
    } else {
        let n_rand = if w > 160 { 1 } else { 3 + p.below(3) as usize };
        targets.push(vec![0u8; w]);
        if w <= 160 {
            targets.push(refint::from_u64(1, w));
            targets.push(rm1.clone());
            targets.push(refint::add_small(&rm1, -1));
        }
        for _ in 0..n_rand {
            targets.push(below_incl(p, &rm1));
        }
        targets.sort();
        targets.dedup();
    }
    let via = if p.chance(1, 2) { 2 } else { p.below(2) as u8 }; // the Uniform constructor is the only entry point that divides
    let dynamic = p.below(4) < sw.dyn_rate;
    Op { kind: OpKind::SpanProbe { low, high, inclusive, via, targets }, dynamic, calls: Vec::new(), shape }
}

/// a small range (2..=256 values) sampled many times on fresh words
fn census_op(p: &mut Prng, sw: &Swarm, w: usize, db: usize, signed: bool) -> Op {
    let r = match p.below(10) {
        0..=3 => 2 + p.below(7),
        4..=6 => 2 + p.below(31),
        7 | 8 => 2 + p.below(127),
        _ => [2u64, 3, 4, 5, 7, 8, 10, 16, 17, 100, 128, 255, 256][p.below(13) as usize],
    };
    let r = if w == 1 { r.min(200) } else { r };
    let (low, high_incl) = place(p, w, db, signed, &Some(refint::from_u64(r, w)));
    let (low, high, inclusive) = api_bounds(p, w, signed, low, high_incl);
    let samples = (64 * r * (1 + p.below(2))) as u32;
    let via = p.below(3) as u8;
    let dynamic = p.below(4) < sw.dyn_rate;
    Op { kind: OpKind::Census { low, high, inclusive, via, samples }, dynamic, calls: Vec::new(), shape: 13 }
}

/// interleaved-tasks run: 2-3 logical callers whose ranges are related (same low digits, neighbouring sizes, the same
/// bounds in another type) so that state keyed on part of the arguments would collide, plus a seeded schedule
fn tasks_run(seed: u64, run: u64, p: &mut Prng, menu: &[Box<dyn TyObj>]) -> RunSpec {
    let small: Vec<usize> = (0..menu.len()).filter(|&i| menu[i].bytes() <= 64).collect();
    // Half of these runs hunt for collisions in state keyed on part of a call's arguments: all tasks use types of one
    // family (same digit type and signedness: what one generic function body — and a `static` inside it — serves),
    // the same entry point, closely related ranges, and words aimed at rejection boundaries.
    let hunt = p.chance(1, 2);
    let t0 = if hunt && p.chance(7, 10) {
        let wide: Vec<usize> = small.iter().copied().filter(|&i| menu[i].bytes() > 16).collect();
        wide[p.below(wide.len() as u64) as usize]
    } else {
        small[p.below(small.len() as u64) as usize]
    };
    // three hunts in ten are about the byte paths instead: every op a `gen` or a fill, lengths around chunk sizes,
    // RNG faults on (a staging buffer, a carry-over of unused bytes or a chunk counter shared between callers)
    let byte_hunt = hunt && p.chance(3, 10);
    let hunt_kind = if byte_hunt { 3 } else { p.weighted(&[6, 2, 2]) };
    // a third of the hunts are long chains: one or two tasks with many constructions each (a multi-slot table needs
    // several entries, evictions and a particular order of them before it can go wrong)
    let long_chain = hunt && p.chance(1, 3);
    let n_tasks = if long_chain { 1 + p.below(2) as usize } else if p.chance(1, 3) { 3 } else { 2 };
    let faults_on = if byte_hunt { p.chance(2, 3) } else { !hunt && p.chance(1, 3) };
    let sw = Swarm {
        fault_err: faults_on && p.chance(1, 2),
        fault_partial: faults_on && p.chance(1, 2),
        fault_panic: faults_on && p.chance(1, 2),
        fault_stall: p.chance(1, 2),
        fault_rate: [8, 20][p.below(2) as usize],
        w_fresh: [1, 4, 8][p.below(3) as usize],
        w_extreme: [0, 1, 4][p.below(3) as usize],
        w_aimed: hunt || p.chance(2, 3),
        dyn_rate: [0, 0, 1, 4][p.below(4) as usize],
    };
    let sw = if hunt { Swarm { w_fresh: 1, w_extreme: 1, ..sw } } else { sw };
    let mut shape_w = [6u32, 5, 5, 6, 5, 6, 14, 14, 3, 5, 6, 6, 8, 5, 7];
    for x in shape_w.iter_mut() {
        if p.chance(1, 4) {
            *x = 0;
        }
    }
    shape_w[6] += 1;
    // the base range, in the first task's type
    let (bw, bdb, bsigned) = (menu[t0].bytes(), menu[t0].digit_bytes(), menu[t0].signed());
    let (mut br, _) = gen_rsize(p, bw, bdb, &shape_w);
    if hunt && p.chance(4, 5) {
        // sizes that fit a machine word (what a word-sized memo can hold), rarely a power of two
        let bits = match p.below(10) { 0..=4 => 2 + p.below(31), 5..=7 => 2 + p.below(63), _ => 65 + p.below(63) } as usize;
        let bits = bits.min(bw * 8 - 1);
        let mut v = p.bytes(bw);
        for (i, x) in v.iter_mut().enumerate() {
            let lo = i * 8;
            if lo >= bits {
                *x = 0;
            } else if lo + 8 > bits {
                *x &= ((1u16 << (bits - lo)) - 1) as u8;
            }
        }
        v[(bits - 1) / 8] |= 1 << ((bits - 1) % 8);
        v[0] |= p.below(2) as u8;
        br = Some(v);
    }
    let (blow, bhigh) = place(p, bw, bdb, bsigned, &br);
    let mut tasks = Vec::new();
    // every range built so far in this run (in the base type's width): a new range is derived from any of them, so
    // that chains like (a, h1) -> (a, h2) -> (b, h2) arise (what a multi-slot table needs to go wrong)
    let mut pool: Vec<(Vec<u8>, Vec<u8>)> = vec![(blow.clone(), bhigh.clone())];
    for ti in 0..n_tasks {
        let tyi = if ti == 0 {
            t0
        } else if hunt {
            // same family; another width three times out of five
            let fam: Vec<usize> = small.iter().copied().filter(|&i| menu[i].digit_bytes() == bdb && menu[i].signed() == bsigned && (menu[i].bytes() > 16) == (bw > 16)).collect();
            if p.chance(3, 5) && fam.len() > 1 { fam[p.below(fam.len() as u64) as usize] } else { t0 }
        } else if p.chance(1, 2) {
            t0
        } else {
            match p.below(3) {
                // the signed / unsigned twin, a type with the same digit size, any small type
                0 => small.iter().copied().find(|&i| menu[i].bytes() == bw && menu[i].digit_bytes() == bdb && menu[i].signed() != bsigned).unwrap_or(t0),
                1 => {
                    let c: Vec<usize> = small.iter().copied().filter(|&i| menu[i].digit_bytes() == bdb).collect();
                    c[p.below(c.len() as u64) as usize]
                }
                _ => small[p.below(small.len() as u64) as usize],
            }
        };
        let ty = &menu[tyi];
        let (w, db, signed) = (ty.bytes(), ty.digit_bytes(), ty.signed());
        let mut ops = Vec::new();
        for _ in 0..if long_chain { 6 + p.below(6) } else { 1 + p.below(if hunt { 4 } else { 3 }) } {
            let dynamic = p.below(4) < sw.dyn_rate;
            let kind_sel = if byte_hunt { 3 + p.below(3).min(1) as usize } else if hunt { hunt_kind } else { p.weighted(&[8, 4, 4, 2, 2]) };
            if kind_sel == 3 {
                ops.push(Op { kind: OpKind::Gen, dynamic, calls: (0..1 + p.below(3)).map(|_| fill_call_plan(p, &sw, w, db)).collect(), shape: 0 });
                continue;
            }
            if kind_sel == 4 {
                let len = if byte_hunt {
                    match p.below(4) {
                        0 => p.below(10) as usize,
                        1 => 10 + p.below(40) as usize,
                        _ => {
                            let b = [63usize, 64, 65, 255, 256, 257, 511, 512, 513, 1023, 1024, 1025, 4095, 4096, 4097, 5000, 8191, 8192, 8193, 12289][p.below(20) as usize];
                            ((b + w - 1) / w + p.below(3) as usize).saturating_sub(1)
                        }
                    }
                } else {
                    p.below(6) as usize
                };
                let via = [FillVia::TryFillSlice, FillVia::FillTrait, FillVia::RngTryFill][p.below(3) as usize];
                ops.push(Op { kind: OpKind::Fill { len, init: 0x5A, front: p.below(3) as usize, via }, dynamic, calls: (0..1 + p.below(2)).map(|_| fill_call_plan(p, &sw, w * len.max(1), db)).collect(), shape: 0 });
                continue;
            }
            // bounds: related to the base range (so that state keyed on part of the arguments collides), or fresh
            let (low, high_incl, shape) = if hunt || p.chance(3, 5) {
                let (plow, phigh) = pool[p.below(pool.len() as u64) as usize].clone();
                let mut lo = refint::resize(&plow, w, bsigned);
                let mut hi = refint::resize(&phigh, w, bsigned);
                match if hunt { [0u64, 0, 0, 4, 4, 6, 6, 1, 3, 5, 7, 7][p.below(12) as usize] } else { p.below(8) } {
                    0 => {}
                    7 => {
                        // the low part of this size under the high part of another range's size (split at an 8-byte or
                        // digit boundary): a one-word size and a two-word size that share a word
                        let (olow, ohigh) = pool[p.below(pool.len() as u64) as usize].clone();
                        let osz = refint::sub(&refint::resize(&ohigh, w, bsigned), &refint::resize(&olow, w, bsigned));
                        let mut sz = refint::sub(&hi, &lo);
                        let cut = if w > 8 && p.chance(2, 3) { 8 } else { (1 + p.below((w / db).max(2) as u64 - 1) as usize) * db };
                        for i in cut.min(w)..w {
                            sz[i] = if p.chance(1, 4) { 0 } else { osz[i] };
                        }
                        hi = refint::add(&lo, &sz);
                    }
                    6 => {
                        // the size XOR-ed with the difference of the two widths at a byte position: what collides when a
                        // key is packed as `size ^ (BITS << s)` or `(BITS << s) | size`
                        let mut sz = refint::sub(&hi, &lo);
                        let x = ((w * 8) ^ (bw * 8)) as u64;
                        let s = [2usize, 4, 5, 6, 7][p.below(5) as usize];
                        for (i, b) in x.to_le_bytes().iter().enumerate() {
                            if s + i < w {
                                sz[s + i] ^= b;
                            }
                        }
                        hi = refint::add(&lo, &sz);
                    }
                    1 => {
                        // same low bytes, different upper bytes
                        let k = w / 2 + p.below((w - w / 2) as u64) as usize;
                        hi[k] ^= 1 << p.below(8);
                    }
                    2 => {
                        let k = p.below(w as u64) as usize;
                        lo[k] ^= 1 << p.below(8);
                    }
                    3 => hi = refint::add_small(&hi, if p.chance(1, 2) { 1 } else { -1 }),
                    4 => {
                        // the same size somewhere else
                        let d = p.bytes(w);
                        lo = refint::add(&lo, &d);
                        hi = refint::add(&hi, &d);
                    }
                    _ => {
                        // size shifted up by whole digits
                        let sz = refint::sub(&hi, &lo);
                        let k = (1 + p.below((w / db) as u64) as usize) * db;
                        let mut sh = vec![0u8; w];
                        for i in k.min(w)..w {
                            sh[i] = sz[i - k.min(w)];
                        }
                        hi = refint::add(&lo, &sh);
                    }
                }
                if refint::cmp(signed, &lo, &hi) == Ordering::Greater {
                    std::mem::swap(&mut lo, &mut hi);
                }
                if pool.len() < 12 {
                    pool.push((refint::resize(&lo, bw, signed), refint::resize(&hi, bw, signed)));
                }
                (lo, hi, 14u8)
            } else {
                let (r, shape) = gen_rsize(p, w, db, &shape_w);
                let (lo, hi) = place(p, w, db, signed, &r);
                (lo, hi, shape)
            };
            let rr = refint::range_size(&low, &high_incl);
            let (low, high, inclusive) = api_bounds(p, w, signed, low, high_incl);
            let ncalls = if long_chain { 1 + p.below(2) } else if hunt { 2 + p.below(4) } else { 1 + p.below(4) };
            let calls: Vec<Vec<Plan>> = (0..ncalls).map(|_| range_call_plan(p, &sw, w, db, rr.as_ref())).collect();
            let kind = match kind_sel {
                0 => OpKind::Uniform { low, high, inclusive, ctor: [Ctor::Val, Ctor::Ref, Ctor::FromRange, Ctor::Sampler][p.below(4) as usize] },
                1 => OpKind::Single { low, high, inclusive, by_ref: p.chance(1, 2) },
                _ => OpKind::GenRange { low, high, inclusive },
            };
            ops.push(Op { kind, dynamic, calls, shape });
        }
        tasks.push(Task { ty: ty.name().to_string(), ops });
    }
    let sched_len = match p.below(4) {
        0 => p.below(4),
        1 => p.below(16),
        _ => p.below(64),
    } as usize;
    let schedule: Vec<u8> = (0..sched_len).map(|_| p.below(6) as u8).collect();
    let infallible = p.chance(1, 4);
    let fresh_seed = p.next();
    let err_code = [0xC000_0007u32, 4, 5, 11][p.below(4) as usize];
    RunSpec { seed, run, ty: tasks[0].ty.clone(), infallible, fresh_seed, err_code, ops: Vec::new(), mode: 6, tasks, schedule }
}

/// a two-target span probe through a Uniform object, range sizes of every magnitude
fn div_hunt_op(p: &mut Prng, sw: &Swarm, w: usize, db: usize, signed: bool) -> Op {
    //            1  2..3 2^k 2^k+-1 digit dig-bdry q  q  2^W-1 full uniform small log ones pattern
    let weights = [0u32, 0, 1, 2, 0, 3, 3, 3, 0, 0, 8, 0, 16, 6, 8];
    let (r, shape) = gen_rsize(p, w, db, &weights);
    let (low, high_incl) = place(p, w, db, signed, &r);
    let (low, high, inclusive) = api_bounds(p, w, signed, low, high_incl);
    let rm1 = match &r {
        Some(r) => refint::add_small(r, -1),
        None => vec![0xFFu8; w],
    };
    let mut targets = vec![vec![0u8; w], below_incl(p, &rm1)];
    if p.chance(1, 2) {
        targets.push(rm1.clone());
    }
    targets.sort();
    targets.dedup();
    let dynamic = p.below(4) < sw.dyn_rate;
    Op { kind: OpKind::SpanProbe { low, high, inclusive, via: 2, targets }, dynamic, calls: Vec::new(), shape }
}
