//! RunSpec: the complete, explicit description of one simulated run. The generator produces one from a
//! seed; the executor is a pure function of (RunSpec, code under test); a replay file is a RunSpec.

use crate::json::{hex, unhex, J};
use crate::simrng::Plan;
use crate::types::{Ctor, FillVia};

#[derive(Clone, Debug, PartialEq)]
pub enum OpKind {
    /// rng.gen::<T>()
    Gen,
    /// rng.gen_range(low..high) / (low..=high)
    GenRange { low: Vec<u8>, high: Vec<u8>, inclusive: bool },
    /// <T::Sampler>::sample_single(_inclusive)
    Single { low: Vec<u8>, high: Vec<u8>, inclusive: bool, by_ref: bool },
    /// Uniform object constructed once, sampled calls.len() times
    Uniform { low: Vec<u8>, high: Vec<u8>, inclusive: bool, ctor: Ctor },
    /// fill a slice of `len` elements
    Fill { len: usize, init: u8, front: usize, via: FillVia },
    /// R6: try_fill_slice(len) versus len x gen() on two copies of one byte stream
    FillVsElem { len: usize, stream: Vec<u8> },
    /// exact fibre counting at any width: serve consecutive words start, start+-1, ... as the only word of
    /// successive calls and count the accepted words of each value whose contiguous fibre is seen completely.
    /// `via`: 0 gen_range, 1 sample_single(_inclusive), 2 Uniform object
    FibreWalk { low: Vec<u8>, high: Vec<u8>, inclusive: bool, via: u8, start: Vec<u8>, up: bool, fibres: u8, max_steps: u32 },
    /// exact size of the accepted block of chosen values when fibres are astronomically large: locate both ends of
    /// each block by bisection over first words (boundaries verified locally, interior sampled) and compare sizes.
    /// `targets`: offsets k (value = low + k) as width-byte little-endian numbers
    SpanProbe { low: Vec<u8>, high: Vec<u8>, inclusive: bool, via: u8, targets: Vec<Vec<u8>> },
    /// value census: `samples` calls on fresh uniform words over a range of at most 256 values; every value must turn
    /// up, and none absurdly often (bounds chosen so that a sampler with equal preimage counts fails with
    /// probability < 1e-15). Catches values that are unreachable, or grossly over-represented, at widths and
    /// quotients where neither a sweep, the preimage bound nor a walk can count anything.
    Census { low: Vec<u8>, high: Vec<u8>, inclusive: bool, via: u8, samples: u32 },
}

#[derive(Clone, Debug, PartialEq)]
pub struct Op {
    pub kind: OpKind,
    /// call through `&mut dyn RngCore`
    pub dynamic: bool,
    /// one response plan per call of a bnum entry point
    pub calls: Vec<Vec<Plan>>,
    /// generator's label of the bound shape (informational; used for the `states` measure)
    pub shape: u8,
}

/// one logical caller of the interleaved-tasks mode: its own type, its own ops and its own scripted RNG
#[derive(Clone, Debug, PartialEq)]
pub struct Task {
    pub ty: String,
    pub ops: Vec<Op>,
}

#[derive(Clone, Debug, PartialEq)]
pub struct RunSpec {
    pub seed: u64,
    pub run: u64,
    pub ty: String,
    pub infallible: bool,
    pub fresh_seed: u64,
    /// the error code every injected RNG error of this run carries (rand::Error::code / raw_os_error)
    pub err_code: u32,
    pub ops: Vec<Op>,
    /// generator's label: 0 mixed, 1 cluster, 2 fault-free twin, 3 fibre walk, 4 span probe, 5 census, 6 tasks
    pub mode: u8,
    /// interleaved-tasks mode (mode 6; `ops` is empty then): several logical callers, each with its own scripted RNG,
    /// run once one after the other and once interleaved at every seam crossing as `schedule` dictates
    pub tasks: Vec<Task>,
    /// at the k-th scheduling point the task that runs next is `runnable[schedule[k] % runnable.len()]`; when the
    /// list is exhausted the task holding the baton keeps it
    pub schedule: Vec<u8>,
}

fn plan_j(p: &Plan) -> J {
    match p {
        Plan::Fresh => J::s("fresh"),
        Plan::Repeat => J::s("repeat"),
        Plan::RepeatN(n) => J::obj().set("repeat_times", J::Int(*n as i128)),
        Plan::Err => J::s("err"),
        Plan::Panic => J::s("panic"),
        Plan::Fixed(b) => J::obj().set("bytes", J::Str(hex(b))),
        Plan::PartialErr(f) => J::obj().set("partial_err", J::i(*f as i64)),
        Plan::FaultAtByte(n, inner) => J::obj().set("fault_when_delivered_bytes_reach", J::Int(*n as i128)).set("fault", plan_j(inner)),
    }
}

fn plan_from(j: &J) -> Result<Plan, String> {
    match j {
        J::Str(s) => match s.as_str() {
            "fresh" => Ok(Plan::Fresh),
            "repeat" => Ok(Plan::Repeat),
            "err" => Ok(Plan::Err),
            "panic" => Ok(Plan::Panic),
            o => Err(format!("bad plan {}", o)),
        },
        J::Obj(_) => {
            if let Some(n) = j.get("repeat_times") {
                Ok(Plan::RepeatN(n.int().ok_or("repeat_times")? as u32))
            } else if let Some(b) = j.get("bytes") {
                Ok(Plan::Fixed(unhex(b.str().ok_or("bytes")?)?))
            } else if let Some(n) = j.get("fault_when_delivered_bytes_reach") {
                Ok(Plan::FaultAtByte(n.int().ok_or("fault_when_delivered_bytes_reach")? as u64, Box::new(plan_from(j.get("fault").ok_or("fault")?)?)))
            } else if let Some(f) = j.get("partial_err") {
                Ok(Plan::PartialErr(f.int().ok_or("partial_err")? as u8))
            } else {
                Err("bad plan object".into())
            }
        }
        _ => Err("bad plan".into()),
    }
}

fn ctor_name(c: Ctor) -> &'static str {
    match c {
        Ctor::Val => "by_value",
        Ctor::Ref => "by_ref",
        Ctor::FromRange => "from_range",
        Ctor::Sampler => "sampler_new",
    }
}

fn via_name(v: FillVia) -> &'static str {
    match v {
        FillVia::TryFillSlice => "try_fill_slice",
        FillVia::FillTrait => "Fill::try_fill",
        FillVia::RngTryFill => "Rng::try_fill",
        FillVia::RngFill => "Rng::fill",
    }
}

impl Op {
    pub fn kind_name(&self) -> &'static str {
        match self.kind {
            OpKind::Gen => "gen",
            OpKind::GenRange { .. } => "gen_range",
            OpKind::Single { .. } => "sample_single",
            OpKind::Uniform { .. } => "uniform_sample",
            OpKind::Fill { .. } => "fill",
            OpKind::FillVsElem { .. } => "fill_vs_elementwise",
            OpKind::FibreWalk { .. } => "fibre_walk",
            OpKind::SpanProbe { .. } => "span_probe",
            OpKind::Census { .. } => "census",
        }
    }
    pub fn to_json(&self) -> J {
        let mut o = J::obj().set("op", J::s(self.kind_name()));
        match &self.kind {
            OpKind::Gen => {}
            OpKind::GenRange { low, high, inclusive } => {
                o.put("low", J::Str(hex(low)));
                o.put("high", J::Str(hex(high)));
                o.put("inclusive", J::Bool(*inclusive));
            }
            OpKind::Single { low, high, inclusive, by_ref } => {
                o.put("low", J::Str(hex(low)));
                o.put("high", J::Str(hex(high)));
                o.put("inclusive", J::Bool(*inclusive));
                o.put("by_ref", J::Bool(*by_ref));
            }
            OpKind::Uniform { low, high, inclusive, ctor } => {
                o.put("low", J::Str(hex(low)));
                o.put("high", J::Str(hex(high)));
                o.put("inclusive", J::Bool(*inclusive));
                o.put("ctor", J::s(ctor_name(*ctor)));
            }
            OpKind::Fill { len, init, front, via } => {
                o.put("len", J::u(*len));
                o.put("init", J::i(*init as i64));
                o.put("guard_elements_in_front", J::u(*front));
                o.put("via", J::s(via_name(*via)));
            }
            OpKind::FillVsElem { len, stream } => {
                o.put("len", J::u(*len));
                o.put("stream", J::Str(hex(stream)));
            }
            OpKind::SpanProbe { low, high, inclusive, via, targets } => {
                o.put("low", J::Str(hex(low)));
                o.put("high", J::Str(hex(high)));
                o.put("inclusive", J::Bool(*inclusive));
                o.put("via", J::s(["gen_range", "sample_single", "uniform_sample"][*via as usize % 3]));
                o.put("target_offsets", J::Arr(targets.iter().map(|t| J::Str(hex(t))).collect()));
            }
            OpKind::Census { low, high, inclusive, via, samples } => {
                o.put("low", J::Str(hex(low)));
                o.put("high", J::Str(hex(high)));
                o.put("inclusive", J::Bool(*inclusive));
                o.put("via", J::s(["gen_range", "sample_single", "uniform_sample"][*via as usize % 3]));
                o.put("samples", J::Int(*samples as i128));
            }
            OpKind::FibreWalk { low, high, inclusive, via, start, up, fibres, max_steps } => {
                o.put("low", J::Str(hex(low)));
                o.put("high", J::Str(hex(high)));
                o.put("inclusive", J::Bool(*inclusive));
                o.put("via", J::s(["gen_range", "sample_single", "uniform_sample"][*via as usize % 3]));
                o.put("start_word", J::Str(hex(start)));
                o.put("upward", J::Bool(*up));
                o.put("fibres", J::i(*fibres as i64));
                o.put("max_steps", J::i(*max_steps as i64));
            }
        }
        o.put("dynamic", J::Bool(self.dynamic));
        o.put("shape", J::i(self.shape as i64));
        o.put("calls", J::Arr(self.calls.iter().map(|c| J::Arr(c.iter().map(plan_j).collect())).collect()));
        o
    }
    pub fn from_json(j: &J) -> Result<Op, String> {
        let name = j.get("op").and_then(|x| x.str()).ok_or("op")?;
        let hx = |k: &str| -> Result<Vec<u8>, String> { unhex(j.get(k).and_then(|x| x.str()).ok_or(format!("missing {}", k))?) };
        let bl = |k: &str| -> Result<bool, String> { j.get(k).and_then(|x| x.boolean()).ok_or(format!("missing {}", k)) };
        let kind = match name {
            "gen" => OpKind::Gen,
            "gen_range" => OpKind::GenRange { low: hx("low")?, high: hx("high")?, inclusive: bl("inclusive")? },
            "sample_single" => OpKind::Single { low: hx("low")?, high: hx("high")?, inclusive: bl("inclusive")?, by_ref: bl("by_ref")? },
            "uniform_sample" => {
                let c = j.get("ctor").and_then(|x| x.str()).ok_or("ctor")?;
                let ctor = [Ctor::Val, Ctor::Ref, Ctor::FromRange, Ctor::Sampler].into_iter().find(|x| ctor_name(*x) == c).ok_or("bad ctor")?;
                OpKind::Uniform { low: hx("low")?, high: hx("high")?, inclusive: bl("inclusive")?, ctor }
            }
            "fill" => {
                let v = j.get("via").and_then(|x| x.str()).ok_or("via")?;
                let via = [FillVia::TryFillSlice, FillVia::FillTrait, FillVia::RngTryFill, FillVia::RngFill].into_iter().find(|x| via_name(*x) == v).ok_or("bad via")?;
                OpKind::Fill { len: j.get("len").and_then(|x| x.int()).ok_or("len")? as usize, init: j.get("init").and_then(|x| x.int()).unwrap_or(0) as u8, front: j.get("guard_elements_in_front").and_then(|x| x.int()).unwrap_or(0) as usize, via }
            }
            "span_probe" => {
                let v = j.get("via").and_then(|x| x.str()).ok_or("via")?;
                let via = ["gen_range", "sample_single", "uniform_sample"].iter().position(|x| *x == v).ok_or("bad via")? as u8;
                let mut targets = Vec::new();
                for t in j.get("target_offsets").and_then(|x| x.arr()).ok_or("target_offsets")? {
                    targets.push(unhex(t.str().ok_or("target")?)?);
                }
                OpKind::SpanProbe { low: hx("low")?, high: hx("high")?, inclusive: bl("inclusive")?, via, targets }
            }
            "census" => {
                let v = j.get("via").and_then(|x| x.str()).ok_or("via")?;
                let via = ["gen_range", "sample_single", "uniform_sample"].iter().position(|x| *x == v).ok_or("bad via")? as u8;
                OpKind::Census { low: hx("low")?, high: hx("high")?, inclusive: bl("inclusive")?, via, samples: j.get("samples").and_then(|x| x.int()).ok_or("samples")? as u32 }
            }
            "fibre_walk" => {
                let v = j.get("via").and_then(|x| x.str()).ok_or("via")?;
                let via = ["gen_range", "sample_single", "uniform_sample"].iter().position(|x| *x == v).ok_or("bad via")? as u8;
                OpKind::FibreWalk {
                    low: hx("low")?,
                    high: hx("high")?,
                    inclusive: bl("inclusive")?,
                    via,
                    start: hx("start_word")?,
                    up: bl("upward")?,
                    fibres: j.get("fibres").and_then(|x| x.int()).ok_or("fibres")? as u8,
                    max_steps: j.get("max_steps").and_then(|x| x.int()).ok_or("max_steps")? as u32,
                }
            }
            "fill_vs_elementwise" => OpKind::FillVsElem { len: j.get("len").and_then(|x| x.int()).ok_or("len")? as usize, stream: hx("stream")? },
            o => return Err(format!("unknown op {}", o)),
        };
        let mut calls = Vec::new();
        for c in j.get("calls").and_then(|x| x.arr()).ok_or("calls")? {
            let mut v = Vec::new();
            for p in c.arr().ok_or("call")? {
                v.push(plan_from(p)?);
            }
            calls.push(v);
        }
        Ok(Op { kind, dynamic: bl("dynamic").unwrap_or(false), calls, shape: j.get("shape").and_then(|x| x.int()).unwrap_or(0) as u8 })
    }
}

impl RunSpec {
    pub fn to_json(&self) -> J {
        J::obj()
            .set("seed", J::Int(self.seed as i128))
            .set("run", J::Int(self.run as i128))
            .set("type", J::s(&self.ty))
            .set("rng_infallible", J::Bool(self.infallible))
            .set("fresh_seed", J::Int(self.fresh_seed as i128))
            .set("rng_error_code", J::Int(self.err_code as i128))
            .set("mode", J::i(self.mode as i64))
            .set("ops", J::Arr(self.ops.iter().map(|o| o.to_json()).collect()))
            .set("tasks", J::Arr(self.tasks.iter().map(|t| J::obj().set("type", J::s(&t.ty)).set("ops", J::Arr(t.ops.iter().map(|o| o.to_json()).collect()))).collect()))
            .set("schedule", J::Arr(self.schedule.iter().map(|x| J::i(*x as i64)).collect()))
    }
    pub fn from_json(j: &J) -> Result<RunSpec, String> {
        let mut ops = Vec::new();
        for o in j.get("ops").and_then(|x| x.arr()).ok_or("ops")? {
            ops.push(Op::from_json(o)?);
        }
        let mut tasks = Vec::new();
        if let Some(ts) = j.get("tasks").and_then(|x| x.arr()) {
            for t in ts {
                let mut tops = Vec::new();
                for o in t.get("ops").and_then(|x| x.arr()).ok_or("task ops")? {
                    tops.push(Op::from_json(o)?);
                }
                tasks.push(Task { ty: t.get("type").and_then(|x| x.str()).ok_or("task type")?.to_string(), ops: tops });
            }
        }
        let schedule: Vec<u8> = j.get("schedule").and_then(|x| x.arr()).map(|a| a.iter().filter_map(|x| x.int()).map(|x| x as u8).collect()).unwrap_or_default();
        Ok(RunSpec {
            tasks,
            schedule,
            seed: j.get("seed").and_then(|x| x.int()).unwrap_or(0) as u64,
            run: j.get("run").and_then(|x| x.int()).unwrap_or(0) as u64,
            ty: j.get("type").and_then(|x| x.str()).ok_or("type")?.to_string(),
            infallible: j.get("rng_infallible").and_then(|x| x.boolean()).unwrap_or(false),
            fresh_seed: j.get("fresh_seed").and_then(|x| x.int()).unwrap_or(0) as u64,
            err_code: j.get("rng_error_code").and_then(|x| x.int()).unwrap_or(0xC000_0007) as u32,
            mode: j.get("mode").and_then(|x| x.int()).unwrap_or(0) as u8,
            ops,
        })
    }
}
