//! SimRng — the stubbed entropy source. It is the only simulated component: it decides every byte that
//! crosses the `RngCore` seam, injects every fault, counts every draw and records the history.

use crate::prng::Prng;
use rand::{Error, RngCore};
use std::collections::VecDeque;
use std::num::NonZeroU32;

/// what the environment answers to one draw request
#[derive(Clone, Debug, PartialEq, Eq)]
pub enum Plan {
    /// uniform bytes from the run's fresh-word generator
    Fresh,
    /// explicit little-endian bytes (zero-extended / truncated to the request)
    Fixed(Vec<u8>),
    /// the previous word of this call again (stuck entropy source)
    Repeat,
    /// `Repeat`, this many times in a row (very long stalls written compactly)
    RepeatN(u32),
    /// the RNG reports failure without writing (infallible methods / personalities: it panics instead)
    Err,
    /// the RNG writes a prefix (n/256 of the buffer) of garbage, then reports failure
    PartialErr(u8),
    /// the RNG panics inside the draw
    Panic,
    /// not an answer: arms `fault` (Err | PartialErr | Panic) to fire on the request during which the bytes
    /// delivered in this call would reach the given count — i.e. somewhere inside a multi-request fill, wherever
    /// the implementation's chunk boundaries happen to be
    FaultAtByte(u64, Box<Plan>),
}

#[derive(Clone, Copy, Debug, PartialEq, Eq)]
pub enum Method {
    NextU32,
    NextU64,
    FillBytes,
    TryFillBytes,
}

impl Method {
    pub fn name(self) -> &'static str {
        match self {
            Method::NextU32 => "next_u32",
            Method::NextU64 => "next_u64",
            Method::FillBytes => "fill_bytes",
            Method::TryFillBytes => "try_fill_bytes",
        }
    }
}

#[derive(Clone, Debug, PartialEq, Eq)]
pub enum Resp {
    Ok(Vec<u8>),
    Err,
    PartialErr(Vec<u8>),
    Panic,
}

/// which plan kind produced a response (for fault counters and for "fresh" accounting)
#[derive(Clone, Copy, Debug, PartialEq, Eq)]
pub enum Src {
    Fresh,
    Fixed,
    Repeat,
    Stream,
    Fault,
}

#[derive(Clone, Debug)]
pub struct Event {
    pub call: u32,
    pub attempt: u32,
    pub method: Method,
    pub req: u32,
    pub resp: Resp,
    pub src: Src,
}

/// private panic payloads
pub struct InjectedPanic;
pub struct BudgetExceeded;

/// a call is cut off (`no_return`) when it has consumed this many times its natural volume in FRESH uniform
/// bytes (volume = the type's width for one value, len x width for a slice fill; at least 8 bytes). Counting bytes,
/// not requests, keeps the cut-off independent of how an implementation splits its draws into requests.
pub const FRESH_BUDGET: u32 = 1000;
pub const SWEEP_BUDGET: u32 = 1000;

pub struct SimRng {
    fresh: Prng,
    /// Stream mode (R6): requests are served from one fixed byte string obeying the splitting law
    stream: Option<(Vec<u8>, usize)>,
    /// errors surface as panics (an RNG whose try_fill_bytes delegates to an infallible fill_bytes)
    pub infallible: bool,
    plan: VecDeque<Plan>,
    pub events: Vec<Event>,
    /// events recorded so far, including those dropped by `forget_events`
    pub events_total: u64,
    call: u32,
    attempt: u32,
    fresh_bytes_in_call: u64,
    total_in_call: u64,
    unit_bytes: u64,
    planned_repeats: u64,
    last_word: Vec<u8>,
    pub bytes_delivered: u64,
    delivered_in_call: u64,
    armed: VecDeque<(u64, Plan)>,
    pub err_code: u32,
    /// lean mode for complete word-space sweeps: first request gets `word`, later ones fresh words; no history
    pub sweep: Option<SweepState>,
    /// interleaved-tasks mode: every seam crossing is a scheduling point (the task hands the baton to whichever
    /// task the run's schedule names next and waits until it gets it back)
    pub gate: Option<(std::sync::Arc<crate::tasks::Gate>, usize)>,
}

#[derive(Clone, Debug)]
pub struct SweepState {
    pub word: [u8; 4],
    pub requests: u32,
    pub first_len: u32,
}

impl SimRng {
    pub fn new(fresh_seed: u64, infallible: bool) -> SimRng {
        SimRng {
            fresh: Prng::new(fresh_seed),
            stream: None,
            infallible,
            plan: VecDeque::new(),
            events: Vec::new(),
            events_total: 0,
            call: 0,
            attempt: 0,
            fresh_bytes_in_call: 0,
            total_in_call: 0,
            unit_bytes: 8,
            planned_repeats: 0,
            last_word: Vec::new(),
            bytes_delivered: 0,
            delivered_in_call: 0,
            armed: VecDeque::new(),
            err_code: 0xC000_0007,
            sweep: None,
            gate: None,
        }
    }

    pub fn for_sweep(fresh_seed: u64) -> SimRng {
        let mut r = SimRng::new(fresh_seed, false);
        r.sweep = Some(SweepState { word: [0; 4], requests: 0, first_len: 0 });
        r
    }

    #[inline]
    pub fn sweep_arm(&mut self, word: u32) {
        let s = self.sweep.as_mut().unwrap();
        s.word = word.to_le_bytes();
        s.requests = 0;
        s.first_len = 0;
    }

    pub fn with_stream(bytes: Vec<u8>) -> SimRng {
        let mut r = SimRng::new(0, false);
        r.stream = Some((bytes, 0));
        r
    }

    /// drop the recorded history (modes that make tens of thousands of calls and only ever look at the current one)
    pub fn forget_events(&mut self) {
        self.events.clear();
    }

    pub fn stream_pos(&self) -> usize {
        self.stream.as_ref().map(|s| s.1).unwrap_or(0)
    }

    /// start a new call of a bnum entry point; `plan` answers its first draws, after which words are fresh
    pub fn begin_call(&mut self, plan: &[Plan]) -> usize {
        self.begin_call_vol(plan, 8)
    }

    /// `unit` = natural volume of the call in bytes (see FRESH_BUDGET)
    pub fn begin_call_vol(&mut self, plan: &[Plan], unit: usize) -> usize {
        self.call += 1;
        self.attempt = 0;
        self.fresh_bytes_in_call = 0;
        self.total_in_call = 0;
        self.unit_bytes = unit.max(8) as u64;
        self.delivered_in_call = 0;
        self.armed.clear();
        self.last_word.clear();
        self.plan.clear();
        self.plan.extend(plan.iter().cloned());
        self.planned_repeats = plan.iter().map(|p| if let Plan::RepeatN(n) = p { *n as u64 } else { 1 }).sum();
        self.events.len()
    }

    fn serve(&mut self, method: Method, dest: &mut [u8]) -> Result<(), ()> {
        if let Some(s) = &mut self.sweep {
            s.requests += 1;
            if s.requests == 1 {
                s.first_len = dest.len() as u32;
                for (i, d) in dest.iter_mut().enumerate() {
                    *d = if i < 4 { s.word[i] } else { 0 };
                }
            } else {
                if s.requests > SWEEP_BUDGET {
                    std::panic::panic_any(BudgetExceeded);
                }
                self.fresh.fill(dest);
            }
            return Ok(());
        }
        if let Some((g, me)) = &self.gate {
            g.yield_point(*me, true);
        }
        self.attempt += 1;
        self.total_in_call += 1;
        let req = dest.len() as u32;
        // guard against a loop of empty requests: far beyond what any byte-bounded call can make
        if self.total_in_call > FRESH_BUDGET as u64 * (self.unit_bytes + 8) + 4096 + self.planned_repeats {
            std::panic::panic_any(BudgetExceeded);
        }
        if let Some((buf, pos)) = &mut self.stream {
            // Stream mode: no faults, splitting law holds
            // the stream is conceptually infinite: past the scripted part it continues with a fixed
            // deterministic sequence (same for every copy), so the splitting law still holds
            while *pos + dest.len() > buf.len() {
                let mut x = 0x5EED_57EA_0000_0000u64 ^ buf.len() as u64;
                let w = crate::prng::splitmix(&mut x).to_le_bytes();
                buf.extend_from_slice(&w);
            }
            dest.copy_from_slice(&buf[*pos..*pos + dest.len()]);
            *pos += dest.len();
            self.bytes_delivered += dest.len() as u64;
            self.events_total += 1;
                self.events.push(Event { call: self.call, attempt: self.attempt, method, req, resp: Resp::Ok(dest.to_vec()), src: Src::Stream });
            return Ok(());
        }
        let mut p = self.plan.pop_front().unwrap_or(Plan::Fresh);
        if let Plan::RepeatN(n) = p {
            if n > 1 {
                self.plan.push_front(Plan::RepeatN(n - 1));
            }
            p = Plan::Repeat;
        }
        while let Plan::FaultAtByte(n, inner) = p {
            // several entries with the same count make a burst: a failed request delivers nothing, so the next
            // request crosses the same count again
            self.armed.push_back((n, *inner));
            p = self.plan.pop_front().unwrap_or(Plan::Fresh);
        }
        if let Some((n, _)) = self.armed.front() {
            if self.delivered_in_call + dest.len() as u64 > *n {
                // the armed fault replaces this request's answer; the planned answer serves the next request
                let (_, f) = self.armed.pop_front().unwrap();
                if !matches!(p, Plan::Fresh) {
                    self.plan.push_front(p);
                }
                p = f;
            }
        }
        let fallible = method == Method::TryFillBytes && !self.infallible;
        let (resp, src) = match p {
            Plan::Fresh => {
                self.fresh_bytes_in_call += dest.len() as u64;
                if self.fresh_bytes_in_call > FRESH_BUDGET as u64 * self.unit_bytes {
                    std::panic::panic_any(BudgetExceeded);
                }
                self.fresh.fill(dest);
                (Resp::Ok(dest.to_vec()), Src::Fresh)
            }
            Plan::Fixed(b) => {
                for (i, d) in dest.iter_mut().enumerate() {
                    *d = b.get(i).copied().unwrap_or(0);
                }
                (Resp::Ok(dest.to_vec()), Src::Fixed)
            }
            Plan::Repeat => {
                if self.last_word.len() == dest.len() {
                    dest.copy_from_slice(&self.last_word);
                    (Resp::Ok(dest.to_vec()), Src::Repeat)
                } else {
                    // nothing to repeat (first draw, or a different request size): a fresh word
                    self.fresh_bytes_in_call += dest.len() as u64;
                    if self.fresh_bytes_in_call > FRESH_BUDGET as u64 * self.unit_bytes {
                        std::panic::panic_any(BudgetExceeded);
                    }
                    self.fresh.fill(dest);
                    (Resp::Ok(dest.to_vec()), Src::Fresh)
                }
            }
            Plan::Err => (if fallible { Resp::Err } else { Resp::Panic }, Src::Fault),
            Plan::PartialErr(fr) => {
                let n = (dest.len() * fr as usize) / 256;
                // garbage that is NOT "delivered": it must never show up in an Ok result
                for d in dest[..n].iter_mut() {
                    *d = 0xA5;
                }
                (if fallible { Resp::PartialErr(dest[..n].to_vec()) } else { Resp::Panic }, Src::Fault)
            }
            Plan::Panic => (Resp::Panic, Src::Fault),
            Plan::FaultAtByte(..) | Plan::RepeatN(_) => unreachable!(),
        };
        let out = match &resp {
            Resp::Ok(b) => {
                self.last_word.clear();
                self.last_word.extend_from_slice(b);
                self.bytes_delivered += b.len() as u64;
                self.delivered_in_call += b.len() as u64;
                Ok(())
            }
            Resp::Err | Resp::PartialErr(_) => Err(()),
            Resp::Panic => {
                self.events_total += 1;
                self.events.push(Event { call: self.call, attempt: self.attempt, method, req, resp, src });
                std::panic::panic_any(InjectedPanic);
            }
        };
        self.events_total += 1;
                self.events.push(Event { call: self.call, attempt: self.attempt, method, req, resp, src });
        out
    }
}

impl RngCore for SimRng {
    fn next_u32(&mut self) -> u32 {
        let mut b = [0u8; 4];
        let _ = self.serve(Method::NextU32, &mut b);
        u32::from_le_bytes(b)
    }
    fn next_u64(&mut self) -> u64 {
        let mut b = [0u8; 8];
        let _ = self.serve(Method::NextU64, &mut b);
        u64::from_le_bytes(b)
    }
    fn fill_bytes(&mut self, dest: &mut [u8]) {
        let _ = self.serve(Method::FillBytes, dest);
    }
    fn try_fill_bytes(&mut self, dest: &mut [u8]) -> Result<(), Error> {
        let code = NonZeroU32::new(self.err_code.max(1)).unwrap();
        self.serve(Method::TryFillBytes, dest).map_err(|_| Error::from(code))
    }
}
