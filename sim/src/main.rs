//! bnum-dst: deterministic simulation of bnum's random module over a simulator-owned RngCore.
//! See /verif/DESIGN.md §3. Exit codes: 0 clean, 1 violation(s) found, 2 harness error.

mod exec;
mod gen;
mod json;
mod prng;
mod refint;
mod shrink;
mod simrng;
mod spec;
mod sweep;
mod tasks;
mod types;

use exec::Counters;
use json::J;
use spec::RunSpec;
use std::collections::{BTreeMap, BTreeSet, HashSet};
use std::sync::atomic::{AtomicU64, Ordering};
use std::sync::Mutex;
use std::time::Instant;
use sweep::{Entry, SweepJob};
use types::{by_name, TyObj};

const BUILD: &str = if cfg!(debug_assertions) { "dbg" } else { "rel" };

fn arg<'a>(args: &'a [String], k: &str) -> Option<&'a str> {
    args.iter().position(|a| a == k).and_then(|i| args.get(i + 1)).map(|s| s.as_str())
}

fn main() {
    exec::install_panic_hook();
    let args: Vec<String> = std::env::args().collect();
    let cmd = args.get(1).map(|s| s.as_str()).unwrap_or("");
    let code = match cmd {
        "run" => cmd_run(&args),
        "replay" => cmd_replay(&args),
        "fingerprints" => cmd_fingerprints(&args),
        "history-search" => cmd_history_search(&args),
        "show" => cmd_show(&args),
        "refint-selftest" => {
            let seed = arg(&args, "--seed").and_then(|s| s.parse().ok()).unwrap_or(1);
            let n = arg(&args, "--n").and_then(|s| s.parse().ok()).unwrap_or(2000);
            for l in refint::selftest_lines(seed, n) {
                println!("{}", l);
            }
            0
        }
        "bench-tasks" => {
            // development aid: time generation and execution of interleaved-tasks runs, single-threaded
            let menu = types::menu();
            let (mut n, mut tg, mut te) = (0u64, 0u128, 0u128);
            for run in 0..200_000u64 {
                let t0 = Instant::now();
                let spec = gen::make_run(20, run, &menu);
                let g = t0.elapsed().as_nanos();
                if spec.tasks.is_empty() {
                    continue;
                }
                let t1 = Instant::now();
                let _ = exec::run(&spec, by_name(&menu, &spec.ty).unwrap(), false);
                te += t1.elapsed().as_nanos();
                tg += g;
                n += 1;
                if n >= 2000 {
                    break;
                }
            }
            println!("{} tasks runs: generation {:.1} us each, execution {:.1} us each", n, tg as f64 / n as f64 / 1e3, te as f64 / n as f64 / 1e3);
            0
        }
        "types" => {
            for t in types::menu() {
                println!("{} bytes={} digit_bytes={} signed={}", t.name(), t.bytes(), t.digit_bytes(), t.signed());
            }
            0
        }
        _ => {
            eprintln!("usage: sim run|replay|fingerprints|show|refint-selftest|types ...");
            2
        }
    };
    std::process::exit(code);
}

struct Tier {
    runs: u64,
    sweep8_all_pairs: bool,
    /// every range size r = 1..=2^16 at 16 bits (low = MIN), complete word space each
    sweep16_all_sizes: bool,
    sweep16: u64,
    sweep24: u64,
    sweep32: u64,
    determinism_runs: u64,
}

fn tier(name: &str) -> Tier {
    match name {
        "thorough" => Tier { runs: 6_000_000, sweep8_all_pairs: true, sweep16_all_sizes: true, sweep16: 20_000, sweep24: 320, sweep32: 8, determinism_runs: 2000 },
        "smoke" => Tier { runs: 4_000, sweep8_all_pairs: false, sweep16_all_sizes: false, sweep16: 40, sweep24: 2, sweep32: 0, determinism_runs: 32 },
        _ => Tier { runs: 150_000, sweep8_all_pairs: true, sweep16_all_sizes: false, sweep16: 2_000, sweep24: 16, sweep32: 0, determinism_runs: 64 },
    }
}

struct Agg {
    counters: Counters,
    states: BTreeSet<u64>,
    distinct: HashSet<u64>,
    fp_xor: u64,
    fp_sum: u64,
    runs: u64,
    calls: u64,
    draws: u64,
    nontrivial_runs: u64,
    per_type: BTreeMap<String, u64>,
    per_mode: [u64; 8],
    interleavings: HashSet<u64>,
    mode_ns: [u64; 8],
    infallible_runs: u64,
    failing: Vec<(u64, String, String)>, // run index, class, type
}

impl Agg {
    fn new() -> Agg {
        Agg { counters: Counters::new(), states: BTreeSet::new(), distinct: HashSet::new(), fp_xor: 0, fp_sum: 0, runs: 0, calls: 0, draws: 0, nontrivial_runs: 0, per_type: BTreeMap::new(), per_mode: [0; 8], interleavings: HashSet::new(), mode_ns: [0; 8], infallible_runs: 0, failing: Vec::new() }
    }
    fn merge(&mut self, o: Agg) {
        for (k, v) in o.counters {
            *self.counters.entry(k).or_insert(0) += v;
        }
        self.states.extend(o.states);
        self.distinct.extend(o.distinct);
        self.fp_xor ^= o.fp_xor;
        self.fp_sum = self.fp_sum.wrapping_add(o.fp_sum);
        self.runs += o.runs;
        self.calls += o.calls;
        self.draws += o.draws;
        self.nontrivial_runs += o.nontrivial_runs;
        for (k, v) in o.per_type {
            *self.per_type.entry(k).or_insert(0) += v;
        }
        for i in 0..8 {
            self.per_mode[i] += o.per_mode[i];
        }
        self.interleavings.extend(o.interleavings);
        for i in 0..8 {
            self.mode_ns[i] += o.mode_ns[i];
        }
        self.infallible_runs += o.infallible_runs;
        self.failing.extend(o.failing);
    }
}

/// fold one executed run into the aggregate
fn absorb(a: &mut Agg, run: u64, spec: &RunSpec, r: exec::RunResult) {
    a.runs += 1;
    a.calls += r.calls;
    a.draws += r.draws;
    a.fp_xor ^= r.fingerprint.rotate_left((run % 63) as u32);
    a.fp_sum = a.fp_sum.wrapping_add(r.fingerprint.wrapping_mul(run | 1));
    if r.nontrivial {
        a.nontrivial_runs += 1;
        a.distinct.insert(r.fingerprint);
    }
    for (k, v) in r.counters {
        *a.counters.entry(k).or_insert(0) += v;
    }
    a.states.extend(r.states);
    *a.per_type.entry(spec.ty.clone()).or_insert(0) += 1;
    a.per_mode[(spec.mode as usize).min(7)] += 1;
    if let Some(t) = r.interleaving {
        a.interleavings.insert(t);
    }
    if spec.infallible {
        a.infallible_runs += 1;
    }
    for v in r.violations.iter() {
        a.failing.push((run, v.class.to_string(), spec.ty.clone()));
    }
}

fn explore(menu: &[Box<dyn TyObj>], seed: u64, from: u64, to: u64, threads: usize) -> Agg {
    let next = AtomicU64::new(from);
    let total = Mutex::new(Agg::new());
    // Interleaved-tasks runs are set aside and executed in a second phase, among themselves. Their oracle is about
    // state hidden in the code under test; such state would be process-wide and shared with the other workers' calls,
    // so a failure seen here counts only if it shows again when the run is re-executed alone (the reporting step does
    // that for every candidate; executed alone a tasks run is a pure function of its spec even then, see tasks.rs).
    let deferred: Mutex<Vec<u64>> = Mutex::new(Vec::new());
    std::thread::scope(|s| {
        for _ in 0..threads {
            s.spawn(|| {
                let mut a = Agg::new();
                let mut mine = Vec::new();
                loop {
                    let i = next.fetch_add(64, Ordering::Relaxed);
                    if i >= to {
                        break;
                    }
                    for run in i..(i + 64).min(to) {
                        let spec = gen::make_run(seed, run, menu);
                        if !spec.tasks.is_empty() {
                            mine.push(run);
                            continue;
                        }
                        let ty = by_name(menu, &spec.ty).unwrap();
                        let t_run = Instant::now();
                        let r = exec::run(&spec, ty, false);
                        a.mode_ns[(spec.mode as usize).min(7)] += t_run.elapsed().as_nanos() as u64;
                        absorb(&mut a, run, &spec, r);
                    }
                }
                total.lock().unwrap().merge(a);
                deferred.lock().unwrap().extend(mine);
            });
        }
    });
    let mut t = total.into_inner().unwrap();
    let mut d = deferred.into_inner().unwrap();
    d.sort_unstable();
    // second phase: the interleaved-tasks runs, among themselves (each is three passes over 2-3 short-lived threads)
    let next2 = AtomicU64::new(0);
    let total2 = Mutex::new(Agg::new());
    std::thread::scope(|s| {
        for _ in 0..threads {
            s.spawn(|| {
                let mut a = Agg::new();
                loop {
                    let i = next2.fetch_add(1, Ordering::Relaxed) as usize;
                    if i >= d.len() {
                        break;
                    }
                    let run = d[i];
                    let spec = gen::make_run(seed, run, menu);
                    let ty = by_name(menu, &spec.ty).unwrap();
                    let t_run = Instant::now();
                    let r = exec::run(&spec, ty, false);
                    a.mode_ns[(spec.mode as usize).min(7)] += t_run.elapsed().as_nanos() as u64;
                    absorb(&mut a, run, &spec, r);
                }
                total2.lock().unwrap().merge(a);
            });
        }
    });
    t.merge(total2.into_inner().unwrap());
    t.failing.sort();
    t
}

fn replay_dir() -> String {
    std::env::var("VERIF_REPLAY_DIR").unwrap_or_else(|_| "/verif/replays".to_string())
}

fn write_run_replay(spec: &RunSpec, class: &str, detail: &str, orig_seed: u64, orig_run: u64, note: &str) -> String {
    let mut j = J::obj()
        .set("property", J::s("C20"))
        .set("format", J::i(1))
        .set("kind", J::s("run"))
        .set("build", J::s(BUILD))
        .set("violation", J::obj().set("class", J::s(class)).set("detail", J::s(detail)))
        .set("found_by", J::obj().set("seed", J::Int(orig_seed as i128)).set("run", J::Int(orig_run as i128)).set("note", J::s(note)));
    if let J::Obj(o) = spec.to_json() {
        for (k, v) in o {
            j.put(&k, v);
        }
    }
    let dir = replay_dir();
    let _ = std::fs::create_dir_all(&dir);
    let path = format!("{}/C20-{}-{}-{}-{}.json", dir, BUILD, orig_seed, orig_run, class);
    std::fs::write(&path, j.to_string_pretty()).expect("write replay");
    path
}

fn write_sweep_replay(job: &SweepJob, class: &str, detail: &str) -> String {
    let mut j = J::obj()
        .set("property", J::s("C20"))
        .set("format", J::i(1))
        .set("kind", J::s("sweep"))
        .set("build", J::s(BUILD))
        .set("violation", J::obj().set("class", J::s(class)).set("detail", J::s(detail)));
    if let J::Obj(o) = job.to_json() {
        for (k, v) in o {
            j.put(&k, v);
        }
    }
    let dir = replay_dir();
    let _ = std::fs::create_dir_all(&dir);
    let path = format!("{}/C20-{}-sweep-{}-{}-{}-{}-p{}-{}.json", dir, BUILD, job.ty.replace(['<', '>'], "_"), json::hex(&job.low), json::hex(&job.high_incl), job.entry.name().replace(['(', ')', '.', '=', ' '], ""), job.preamble, class);
    std::fs::write(&path, j.to_string_pretty()).expect("write replay");
    path
}

/// sweep jobs for this tier: all (low, high) pairs at 8 bits; seeded + boundary shapes above
fn sweep_jobs(menu: &[Box<dyn TyObj>], seed: u64, t: &Tier) -> Vec<SweepJob> {
    let mut jobs = Vec::new();
    let small: Vec<&dyn TyObj> = menu.iter().map(|b| &**b).filter(|t| t.bytes() <= 4).collect();
    let mut p = prng::Prng::new(prng::mix(seed, 0xFFFF_0001));
    for ty in &small {
        let w = ty.bytes();
        let signed = ty.signed();
        let max = refint::max_value(w, signed);
        let min = refint::min_value(w, signed);
        let push = |low: Vec<u8>, high: Vec<u8>, p: &mut prng::Prng, all_entries: bool, jobs: &mut Vec<SweepJob>| {
            let entries: Vec<Entry> = if all_entries { Entry::all().to_vec() } else { vec![Entry::all()[p.below(5) as usize]] };
            for e in entries {
                if e.exclusive() && high == max {
                    continue;
                }
                let k = jobs.len() as u64;
                // one sweep in four follows a fault history on the same bounds (crash, then verify)
                let preamble = if k % 4 == 1 { 1 + ((k / 4) % 4) as u8 } else { 0 };
                jobs.push(SweepJob { ty: ty.name().to_string(), low: low.clone(), high_incl: high.clone(), entry: e, preamble });
            }
        };
        if w == 1 {
            if t.sweep8_all_pairs {
                for lo in 0..=255u64 {
                    for off in 0..=255u64 {
                        let low = refint::add(&min, &refint::from_u64(lo, 1));
                        if lo + off > 255 {
                            break;
                        }
                        let high = refint::add(&low, &refint::from_u64(off, 1));
                        push(low.clone(), high, &mut p, true, &mut jobs);
                    }
                }
            } else {
                for _ in 0..200 {
                    let a = p.below(256);
                    let b = p.below(256);
                    let (lo, hi) = (a.min(b), a.max(b));
                    push(refint::add(&min, &refint::from_u64(lo, 1)), refint::add(&min, &refint::from_u64(hi, 1)), &mut p, true, &mut jobs);
                }
            }
            continue;
        }
        if w == 2 && t.sweep16_all_sizes {
            for r in 1..=65536u64 {
                let low = min.clone();
                let high = refint::add(&low, &refint::from_u64(r - 1, 2));
                for e in [Entry::UniInc, Entry::SingleInc] {
                    jobs.push(SweepJob { ty: ty.name().to_string(), low: low.clone(), high_incl: high.clone(), entry: e, preamble: 0 });
                }
            }
        }
        let n = match w {
            2 => t.sweep16,
            3 => t.sweep24,
            _ => t.sweep32,
        };
        // distribute the per-width budget over the types of that width
        let same_w = small.iter().filter(|x| x.bytes() == w).count() as u64;
        let n_ty = (n + same_w - 1) / same_w.max(1);
        let n_ty = if n == 0 { 0 } else { n_ty.max(1) };
        for _ in 0..n_ty {
            let (low, high) = gen::sweep_bounds(&mut p, w, ty.digit_bytes(), signed);
            let all_entries = w == 2 && p.chance(1, 8);
            push(low, high, &mut p, all_entries, &mut jobs);
        }
    }
    jobs
}

fn cmd_run(args: &[String]) -> i32 {
    let tname = arg(args, "--tier").unwrap_or("quick");
    let mut t = tier(tname);
    let seed: u64 = arg(args, "--seed").and_then(|s| s.parse().ok()).unwrap_or(20);
    let threads: usize = arg(args, "--threads").and_then(|s| s.parse().ok()).unwrap_or(16);
    if let Some(r) = arg(args, "--runs").and_then(|s| s.parse().ok()) {
        t.runs = r;
    }
    let from: u64 = arg(args, "--from").and_then(|s| s.parse().ok()).unwrap_or(0);
    let fp_out = arg(args, "--fp-out").map(|s| s.to_string());
    let fp_in = arg(args, "--fp-in").map(|s| s.to_string());
    let out = arg(args, "--out").unwrap_or("/dev/stdout").to_string();
    let skip_sweeps = args.iter().any(|a| a == "--no-sweeps");
    let menu = types::menu();
    let t0 = Instant::now();
    println!("SEED {} build={} tier={} runs={}..{} threads={}", seed, BUILD, tname, from, from + t.runs, threads);

    // ---- seeded exploration -------------------------------------------------------------------------
    let agg = explore(&menu, seed, from, from + t.runs, threads);
    let t_explore = t0.elapsed().as_secs_f64();
    let mut violations: Vec<J> = Vec::new();
    let mut harness_errors: Vec<String> = Vec::new();

    // determinism self-test: re-execute a prefix single-threaded and compare with a 3-thread execution
    let dn = t.determinism_runs.min(t.runs);
    let d1 = explore(&menu, seed, from, from + dn, 1);
    let d3 = explore(&menu, seed, from, from + dn, 3);
    if d1.fp_xor != d3.fp_xor || d1.fp_sum != d3.fp_sum || d1.draws != d3.draws {
        harness_errors.push(format!("determinism self-test failed: {} runs gave different fingerprints with 1 and 3 workers", dn));
    }

    // report the first failing runs (lowest run index first), one per (class, type) signature, minimised. A
    // candidate whose minimised spec does not reproduce single-threaded is skipped (it is listed, and becomes a
    // harness error only if nothing at all could be reported): failures that come and go are what state hidden in
    // the code under test and shared between the worker threads looks like, and the interleaved-tasks runs — executed
    // alone, hence reproducible — are then the ones that can be reported.
    let mut seen = BTreeSet::new();
    let mut reported = 0;
    let mut attempts = 0;
    let mut unreproduced: Vec<String> = Vec::new();
    let mut order: Vec<&(u64, String, String)> = agg.failing.iter().collect();
    // stable: interleaved-tasks classes first when present
    order.sort_by_key(|(_, class, _)| if class == "schedule_dependence" || class == "order_dependence" { 0 } else { 1 });
    for (run, class, ty) in order {
        if !seen.insert((class.clone(), ty.clone())) {
            continue;
        }
        if reported >= 6 || attempts >= 48 {
            break;
        }
        attempts += 1;
        let spec = gen::make_run(seed, *run, &menu);
        if std::env::var("VERIF_DEBUG").is_ok() {
            eprintln!("shrinking run {} class {} type {} mode {}", run, class, ty, spec.mode);
        }
        let mut sh = shrink::Shrinker { menu: &menu, class: class.clone(), execs: 0, max_execs: 4000, started: Instant::now() };
        let small = sh.shrink(&spec);
        let tyo = by_name(&menu, &small.ty).unwrap();
        let rr = exec::run(&small, tyo, false);
        let Some(v) = rr.violations.iter().find(|v| v.class == class.as_str()) else {
            unreproduced.push(format!("run {} ({}): minimised spec does not reproduce", run, class));
            continue;
        };
        let planned: usize = spec.ops.iter().map(|o| o.calls.len()).sum::<usize>() + spec.tasks.iter().map(|t| t.ops.iter().map(|o| o.calls.len()).sum::<usize>()).sum::<usize>();
        let path = write_run_replay(&small, class, &v.detail, seed, *run, &format!("minimised from {} op(s) / {} call(s) in {} executions", spec.ops.len() + spec.tasks.iter().map(|t| t.ops.len()).sum::<usize>(), planned, sh.execs));
        // a report must replay in a FRESH process (this one may carry state that earlier runs left in the code under test)
        let fresh = std::process::Command::new(std::env::current_exe().expect("current_exe")).args(["replay", &path]).output();
        if !matches!(&fresh, Ok(o) if o.status.code() == Some(1)) {
            let _ = std::fs::remove_file(&path);
            unreproduced.push(format!("run {} ({}): fails when re-executed inside the exploring process but not in a fresh process", run, class));
            continue;
        }
        reported += 1;
        violations.push(J::obj().set("class", J::s(class)).set("type", J::s(&small.ty)).set("detail", J::s(&v.detail)).set("replay", J::s(&path)).set("build", J::s(BUILD)).set("kind", J::s("run")));
    }
    // Failures of interleaved-tasks runs that come and go: the state that made them fail was left behind by EARLIER runs
    // of this process (a multi-entry cache, say). Recover a history that replays: in a fresh child process execute the
    // tasks runs serially in index order (deterministic there) up to the first one that fails, then find the shortest
    // suffix of that history which still makes it fail in a fresh process, then drop runs from it greedily.
    let tasks_failed_alone = violations.iter().any(|v| matches!(v.get("class").and_then(|c| c.str()), Some("schedule_dependence") | Some("order_dependence")));
    let tasks_come_and_go = unreproduced.iter().any(|u| u.contains("_dependence"));
    let mut fresh_ok = false;
    if tasks_come_and_go && !tasks_failed_alone {
        // first: the candidates themselves, each alone in a FRESH process (this one's hidden state is no longer pristine)
        let dir = replay_dir();
        let _ = std::fs::create_dir_all(&dir);
        for u in unreproduced.iter().filter(|u| u.contains("_dependence")).take(6) {
            // "run <idx> (<class>): ..."
            let f: Vec<&str> = u.split_whitespace().collect();
            let (Some(idx), Some(class)) = (f.get(1).and_then(|x| x.parse::<u64>().ok()), f.get(2).map(|c| c.trim_matches(|ch| ch == '(' || ch == ')' || ch == ':').to_string())) else { continue };
            let spec = gen::make_run(seed, idx, &menu);
            let path = format!("{}/C20-{}-{}-{}-history-{}.json", dir, BUILD, seed, idx, class);
            if history_reproduces(std::slice::from_ref(&spec), &class, &path) {
                let exe = std::env::current_exe().expect("current_exe");
                let detail = std::process::Command::new(exe).args(["replay", &path]).output().ok().and_then(|o| String::from_utf8(o.stdout).ok()).and_then(|s| s.lines().find(|l| l.starts_with("REPRODUCED")).map(|l| l.to_string())).unwrap_or_default();
                reported += 1;
                fresh_ok = true;
                violations.push(J::obj().set("class", J::s(&class)).set("type", J::s(&spec.ty)).set("detail", J::s(&format!("run {} executed alone in a fresh process (it did not fail again inside the exploring process, whose hidden state was no longer pristine): {}", idx, detail))).set("replay", J::s(&path)).set("build", J::s(BUILD)).set("kind", J::s("history")));
                break;
            }
        }
    }
    // Two searches for a history that replays: among the interleaved-tasks runs (state that changes between calls), and —
    // if nothing at all could be reported although runs failed — among all runs (state that is set once per process by
    // whichever call comes first, e.g. a chunk size cached by the first fill of a digit family).
    let mut searches: Vec<bool> = Vec::new();
    if tasks_come_and_go && !tasks_failed_alone && !fresh_ok {
        searches.push(false);
    }
    if reported == 0 && !unreproduced.is_empty() {
        searches.push(true);
    }
    for any in searches {
        if any && reported > 0 {
            break;
        }
        let exe = std::env::current_exe().expect("current_exe");
        let t_h = Instant::now();
        let mut hs_args = vec!["history-search".to_string(), "--seed".into(), seed.to_string(), "--from".into(), from.to_string(), "--to".into(), (from + t.runs).to_string()];
        if any {
            hs_args.push("--any".into());
        }
        let out = std::process::Command::new(&exe).args(&hs_args).output();
        let first = out.ok().and_then(|o| String::from_utf8(o.stdout).ok()).and_then(|s| s.lines().find(|l| l.starts_with("FIRST ")).map(|l| l.to_string()));
        if let Some(line) = first {
            let f: Vec<&str> = line.split_whitespace().collect();
            let idx: u64 = f[1].parse().unwrap_or(0);
            let class = f[2].to_string();
            let all: Vec<RunSpec> = (from..=idx).map(|r| gen::make_run(seed, r, &menu)).filter(|s| any || !s.tasks.is_empty()).collect();
            let dir = replay_dir();
            let _ = std::fs::create_dir_all(&dir);
            let path = format!("{}/C20-{}-{}-{}-history-{}.json", dir, BUILD, seed, idx, class);
            // shortest power-of-two suffix that reproduces
            let mut k = 1usize;
            let mut cur: Option<Vec<RunSpec>> = None;
            while k <= all.len() * 2 {
                let suffix = all[all.len().saturating_sub(k)..].to_vec();
                if history_reproduces(&suffix, &class, &path) {
                    cur = Some(suffix);
                    break;
                }
                k *= 2;
            }
            if let Some(mut hist) = cur {
                // greedy: drop chunks (halves, quarters, ... singles) of the predecessors while it still fails; time-capped
                let mut chunk = (hist.len() - 1).max(1) / 2;
                while chunk >= 1 && t_h.elapsed().as_secs() < 240 {
                    let mut st = 0;
                    while st + 1 < hist.len() && t_h.elapsed().as_secs() < 240 {
                        let en = (st + chunk).min(hist.len() - 1);
                        let mut c = hist.clone();
                        c.drain(st..en);
                        if en > st && history_reproduces(&c, &class, &path) {
                            hist = c;
                        } else {
                            st += chunk;
                        }
                    }
                    chunk /= 2;
                }
                if history_reproduces(&hist, &class, &path) {
                    // the detail of the violation as seen at the end of the history, from the child's output
                    let exe = std::env::current_exe().expect("current_exe");
                    let detail = std::process::Command::new(exe).args(["replay", &path]).output().ok().and_then(|o| String::from_utf8(o.stdout).ok()).and_then(|s| s.lines().find(|l| l.starts_with("REPRODUCED")).map(|l| l.to_string())).unwrap_or_default();
                    reported += 1;
                    violations.push(J::obj().set("class", J::s(&class)).set("type", J::s(&hist.last().unwrap().ty)).set("detail", J::s(&format!("history of {} run(s) executed in order in a fresh process (found by a serial pass over runs {}..={}, minimised from {}): {}", hist.len(), from, idx, all.len(), detail))).set("replay", J::s(&path)).set("build", J::s(BUILD)).set("kind", J::s("history")));
                }
            }
        }
    }
    if reported == 0 {
        harness_errors.extend(unreproduced.iter().cloned());
    }

    // ---- complete word-space sweeps -----------------------------------------------------------------
    let t1 = Instant::now();
    let mut sweep_stats: BTreeMap<String, (u64, u64, u64, u64)> = BTreeMap::new(); // key -> (jobs, words, accepted, rejected)
    let mut sweep_samples: Vec<J> = Vec::new();
    let mut inapplicable: Vec<String> = Vec::new();
    let mut sweeps_after_faults = 0u64;
    if !skip_sweeps {
        let jobs = sweep_jobs(&menu, seed, &t);
        let (small_jobs, big_jobs): (Vec<_>, Vec<_>) = jobs.into_iter().partition(|j| by_name(&menu, &j.ty).unwrap().bytes() < 4);
        let results: Mutex<Vec<(usize, sweep::SweepOutcome)>> = Mutex::new(Vec::new());
        let next = AtomicU64::new(0);
        std::thread::scope(|s| {
            for _ in 0..threads {
                s.spawn(|| {
                    let mut local = Vec::new();
                    loop {
                        let i = next.fetch_add(1, Ordering::Relaxed) as usize;
                        if i >= small_jobs.len() {
                            break;
                        }
                        let job = &small_jobs[i];
                        let o = sweep::sweep_one(by_name(&menu, &job.ty).unwrap(), job, 1);
                        local.push((i, o));
                    }
                    results.lock().unwrap().extend(local);
                });
            }
        });
        let mut results = results.into_inner().unwrap();
        results.sort_by_key(|x| x.0);
        let mut all: Vec<(SweepJob, sweep::SweepOutcome)> = results.into_iter().map(|(i, o)| (small_jobs[i].clone(), o)).collect();
        for job in big_jobs {
            let o = sweep::sweep_one(by_name(&menu, &job.ty).unwrap(), &job, threads);
            all.push((job, o));
        }
        let mut seen_sweep = BTreeSet::new();
        let mut sweeps_not_fresh = 0u64;
        // a violation found after a fault preamble carries its history in the replay file: report those first
        all.sort_by_key(|(job, o)| if o.violation.is_some() && job.preamble != 0 { 0 } else { 1 });
        sweeps_after_faults = all.iter().filter(|(j, _)| j.preamble != 0).count() as u64;
        for (job, o) in all.iter() {
            let key = format!("{} bits / {}", o.wbits, job.ty);
            let e = sweep_stats.entry(key).or_insert((0, 0, 0, 0));
            e.0 += 1;
            e.1 += o.words;
            e.2 += o.accepted;
            e.3 += o.rejected;
            if let Some(r) = &o.inapplicable {
                inapplicable.push(format!("{} {}: {}", job.ty, job.entry.name(), r));
            }
            if let Some(v) = &o.violation {
                if seen_sweep.len() < 6 && sweeps_not_fresh < 60 && !seen_sweep.contains(&(v.class, job.ty.clone(), job.entry)) {
                    let path = write_sweep_replay(job, v.class, &v.detail);
                    if o.wbits <= 24 {
                        // must replay in a fresh process (state left in the code under test by earlier sweeps or runs)
                        let fresh = std::process::Command::new(std::env::current_exe().expect("current_exe")).args(["replay", &path]).output();
                        if !matches!(&fresh, Ok(o) if o.status.code() == Some(1)) {
                            let _ = std::fs::remove_file(&path);
                            sweeps_not_fresh += 1;
                            continue;
                        }
                    }
                    seen_sweep.insert((v.class, job.ty.clone(), job.entry));
                    violations.push(J::obj().set("class", J::s(v.class)).set("type", J::s(&job.ty)).set("detail", J::s(&format!("{} on [{}, {}]{}: {}", job.entry.name(), json::hex(&job.low), json::hex(&job.high_incl), ["", " after one call on the same bounds in which the RNG panicked on the first draw", " after one call on the same bounds in which the RNG reported an error on the first draw", " after one call on the same bounds in which the RNG delivered an all-ones word and panicked on the next draw", " after one call on the same bounds in which the RNG delivered a zero word and panicked on the next draw"][(job.preamble as usize).min(4)], v.detail))).set("replay", J::s(&path)).set("build", J::s(BUILD)).set("kind", J::s("sweep")));
                }
            } else if sweep_samples.len() < 6 && (o.rejected > 0 || sweep_samples.len() < 2) && o.wbits >= 16 {
                sweep_samples.push(job.to_json().set("words", J::Int(o.words as i128)).set("accepted", J::Int(o.accepted as i128)).set("rejected", J::Int(o.rejected as i128)).set("equal_fibre_size", J::Int(o.fibre as i128)));
            }
        }
        if sweeps_not_fresh > 0 {
            unreproduced.push(format!("{} sweep violation(s) did not reproduce in a fresh process", sweeps_not_fresh));
            if violations.is_empty() {
                harness_errors.push(format!("{} sweep(s) failed inside the exploring process but none reproduces in a fresh process", sweeps_not_fresh));
            }
        }
        if !inapplicable.is_empty() && inapplicable.len() == all.len() {
            harness_errors.push(format!("every sweep was inapplicable ({}); the exact-preimage check cannot decide this sampler", inapplicable[0]));
        }
    }
    let t_sweep = t1.elapsed().as_secs_f64();

    // ---- samples for the evidence file --------------------------------------------------------------
    // one small run of every mode (mixed with faults, cluster, fault-free twin, fibre walk, span probe), written out
    let mut samples = Vec::new();
    let mode_names = ["mixed_with_faults", "cluster", "fault_free_twin", "fibre_walk", "span_probe", "census", "interleaved_tasks", "division_hunt"];
    for mode in 0u8..8 {
        for k in 0..t.runs.min(5000) {
            let run = from + k;
            let spec = gen::make_run(seed, run, &menu);
            let ty = by_name(&menu, &spec.ty).unwrap();
            let planned: usize = spec.ops.iter().map(|o| o.calls.len()).sum();
            let small = match mode {
                1 => planned <= 60 && ty.bytes() <= 16,
                3 | 4 | 5 | 7 => ty.bytes() <= 16,
                6 => spec.tasks.iter().map(|t| t.ops.iter().map(|o| o.calls.len()).sum::<usize>()).sum::<usize>() <= 10,
                _ => planned <= 12 && ty.bytes() <= 32,
            };
            if spec.mode != mode || !small {
                continue;
            }
            let r = exec::run(&spec, ty, true);
            if mode >= 3 && r.calls > 4000 {
                continue;
            }
            let mut log: Vec<J> = r.log.iter().take(40).map(|l| J::s(l)).collect();
            if r.log.len() > 40 {
                log.push(J::s(&format!("... {} more line(s)", r.log.len() - 40)));
            }
            let mut sj = spec.to_json();
            if mode == 1 {
                // a cluster's planned words are long; keep the first few calls
                if let Some(J::Arr(ops)) = sj.get("ops").cloned() {
                    let mut ops2 = ops.clone();
                    if let Some(J::Arr(calls)) = ops2[0].get("calls").cloned() {
                        let n = calls.len();
                        let mut c2: Vec<J> = calls.into_iter().take(6).collect();
                        c2.push(J::s(&format!("... {} more planned word(s)", n.saturating_sub(6))));
                        ops2[0].put("calls", J::Arr(c2));
                    }
                    sj.put("ops", J::Arr(ops2));
                }
            }
            samples.push(
                J::obj()
                    .set("mode", J::s(mode_names[mode as usize]))
                    .set("run", J::Int(run as i128))
                    .set("calls_made", J::Int(r.calls as i128))
                    .set("draw_requests", J::Int(r.draws as i128))
                    .set("spec", sj)
                    .set("event_log", J::Arr(log))
                    .set("fingerprint", J::s(&format!("{:016x}", r.fingerprint))),
            );
            break;
        }
    }

    // Reach probes. Those that depend only on the harness (fault kinds actually fired, every op kind executed) must
    // not be stuck at zero: that is a harness error (exit 2). Those that depend on how the code under test is
    // structured (did a rejection happen, could fibres be walked, ...) are reported when stuck — an oracle that
    // found nothing to apply to has decided nothing — but never change the exit status: a correct implementation
    // with a different structure (say, a descending modulo mapping) must not be made to look like a failure.
    let mut probes_at_zero: Vec<String> = Vec::new();
    if t.runs >= 100_000 && violations.is_empty() {
        for k in ["fault_rng_err", "fault_rng_partial_err", "fault_rng_panic", "op_gen", "op_gen_range", "op_sample_single", "op_uniform_sample", "op_fill", "op_fill_vs_elementwise", "op_fibre_walk", "op_span_probe", "op_census", "op_tasks_run", "probe_tasks_interleaved_mid_call", "probe_tasks_of_different_types"] {
            if agg.counters.get(k).copied().unwrap_or(0) == 0 {
                harness_errors.push(format!("harness reach probe {} stuck at zero", k));
            }
        }
        for k in [
            "fault_stall_repeat", "probe_rejection_then_accept", "probe_stall_recovered", "probe_full_range", "probe_signed_range_spans_zero", "probe_result_eq_low", "probe_result_eq_high",
            "probe_offset_carries_past_first_digit", "probe_err_propagated", "probe_err_surfaced_as_rand_panic", "probe_injected_panic_propagated", "probe_sampler_reused_after_panic",
            "probe_zero_length_fill", "probe_gen_refines_history", "probe_fill_refines_history", "probe_slice_equals_elementwise", "probe_fibre_at_bound", "r3_clusters_checked", "probe_accepted_word_is_function",
            "probe_complete_fibres_counted", "fibre_walk_configs_compared", "probe_spans_measured", "span_probe_configs_compared", "probe_census_all_values_seen", "probe_tasks_schedule_independent",
        ] {
            if agg.counters.get(k).copied().unwrap_or(0) == 0 {
                probes_at_zero.push(k.to_string());
            }
        }
    }

    // distinct non-trivial fingerprints, also as a union with another build's set
    let mut fps: Vec<u64> = agg.distinct.iter().copied().collect();
    fps.sort_unstable();
    let mut union_count = fps.len() as u64;
    if let Some(f) = &fp_in {
        match std::fs::read(f) {
            Ok(b) => {
                let mut all: HashSet<u64> = agg.distinct.clone();
                for ch in b.chunks_exact(8) {
                    all.insert(u64::from_le_bytes(ch.try_into().unwrap()));
                }
                union_count = all.len() as u64;
            }
            Err(e) => harness_errors.push(format!("cannot read {}: {}", f, e)),
        }
    }
    if let Some(f) = &fp_out {
        let mut b = Vec::with_capacity(fps.len() * 8);
        for x in &fps {
            b.extend_from_slice(&x.to_le_bytes());
        }
        if let Err(e) = std::fs::write(f, b) {
            harness_errors.push(format!("cannot write {}: {}", f, e));
        }
    }
    let mut counters = J::obj();
    for (k, v) in agg.counters.iter() {
        counters.put(k, J::Int(*v as i128));
    }
    let mut per_type = J::obj();
    for (k, v) in agg.per_type.iter() {
        per_type.put(k, J::Int(*v as i128));
    }
    let mut sweeps = J::obj();
    for (k, v) in sweep_stats.iter() {
        sweeps.put(k, J::obj().set("sweeps", J::Int(v.0 as i128)).set("words_served", J::Int(v.1 as i128)).set("accepted", J::Int(v.2 as i128)).set("rejected", J::Int(v.3 as i128)));
    }
    let j = J::obj()
        .set("build", J::s(BUILD))
        .set("tier", J::s(tname))
        .set("seed", J::Int(seed as i128))
        .set("runs", J::Int(agg.runs as i128))
        .set("calls", J::Int(agg.calls as i128))
        .set("draw_requests", J::Int(agg.draws as i128))
        .set("nontrivial_runs", J::Int(agg.nontrivial_runs as i128))
        .set("distinct_nontrivial", J::Int(agg.distinct.len() as i128))
        .set("distinct_nontrivial_union", J::Int(union_count as i128))
        .set("run_index_from", J::Int(from as i128))
        .set("states", J::Int(agg.states.len() as i128))
        .set("state_hashes", J::Arr(agg.states.iter().map(|x| J::Int(*x as i128)).collect()))
        .set("fingerprint_xor", J::s(&format!("{:016x}", agg.fp_xor)))
        .set("fingerprint_sum", J::s(&format!("{:016x}", agg.fp_sum)))
        .set("runs_by_mode", J::obj().set("mixed_with_faults", J::Int(agg.per_mode[0] as i128)).set("cluster", J::Int(agg.per_mode[1] as i128)).set("fault_free_twin", J::Int(agg.per_mode[2] as i128)).set("fibre_walk", J::Int(agg.per_mode[3] as i128)).set("span_probe", J::Int(agg.per_mode[4] as i128)).set("census", J::Int(agg.per_mode[5] as i128)).set("interleaved_tasks", J::Int(agg.per_mode[6] as i128)).set("division_hunt", J::Int(agg.per_mode[7] as i128)))
        .set("cpu_seconds_by_mode", J::Arr(agg.mode_ns.iter().map(|x| J::Float(*x as f64 / 1e9)).collect()))
        .set("distinct_interleavings", J::Int(agg.interleavings.len() as i128))
        .set("interleaving_hashes", J::Arr({ let mut v: Vec<u64> = agg.interleavings.iter().copied().collect(); v.sort_unstable(); v.into_iter().map(|x| J::Int(x as i128)).collect() }))
        .set("runs_rng_infallible_personality", J::Int(agg.infallible_runs as i128))
        .set("failing_runs", J::Int(agg.failing.len() as i128))
        .set("counters", counters)
        .set("runs_per_type", per_type)
        .set("sweeps", sweeps)
        .set("sweeps_after_fault_preamble", J::Int(sweeps_after_faults as i128))
        .set("sweep_samples", J::Arr(sweep_samples))
        .set("sweeps_inapplicable", J::Arr(inapplicable.iter().take(5).map(|s| J::s(s)).collect()))
        .set("determinism_selftest_runs", J::Int(dn as i128))
        .set("samples", J::Arr(samples))
        .set("violations", J::Arr(violations.clone()))
        .set("harness_errors", J::Arr(harness_errors.iter().map(|s| J::s(s)).collect()))
        .set("unreproduced_candidates", J::Arr(unreproduced.iter().take(20).map(|s| J::s(s)).collect()))
        .set("probes_at_zero", J::Arr(probes_at_zero.iter().map(|s| J::s(s)).collect()))
        .set("explore_wall_s", J::Float(t_explore))
        .set("sweep_wall_s", J::Float(t_sweep))
        .set("wall_s", J::Float(t0.elapsed().as_secs_f64()));
    std::fs::write(&out, j.to_string_pretty()).expect("write out");
    for v in &violations {
        println!("FOUND class={} type={} replay={} :: {}", v.get("class").unwrap().str().unwrap(), v.get("type").unwrap().str().unwrap(), v.get("replay").unwrap().str().unwrap(), v.get("detail").unwrap().str().unwrap());
    }
    for h in &harness_errors {
        println!("HARNESS-ERROR {}", h);
    }
    if reported > 0 && !unreproduced.is_empty() {
        println!("NOTE {} failing run(s) did not reproduce when re-executed alone (first: {}) — results that come and go point at state shared between callers", unreproduced.len(), unreproduced[0]);
    }
    for k in &probes_at_zero {
        println!("NOTE structure-dependent probe {} is at zero: the corresponding oracle found nothing to apply to", k);
    }
    println!("DONE build={} runs={} calls={} draws={} states={} distinct_nontrivial={} failing_runs={} explore={:.1}s sweeps={:.1}s", BUILD, agg.runs, agg.calls, agg.draws, agg.states.len(), agg.distinct.len(), agg.failing.len(), t_explore, t_sweep);
    if !harness_errors.is_empty() {
        2
    } else if !violations.is_empty() {
        1
    } else {
        0
    }
}

/// child-process helper: execute the interleaved-tasks runs of an index range one after the other on the main thread
/// (deterministic in a fresh process) and print the first one that shows a schedule / order dependence
fn cmd_history_search(args: &[String]) -> i32 {
    let seed: u64 = arg(args, "--seed").and_then(|s| s.parse().ok()).unwrap_or(20);
    let from: u64 = arg(args, "--from").and_then(|s| s.parse().ok()).unwrap_or(0);
    let to: u64 = arg(args, "--to").and_then(|s| s.parse().ok()).unwrap_or(0);
    // --any: every run kind and every violation class (state that is set once per process); otherwise the
    // interleaved-tasks runs and their two classes only
    let any = args.iter().any(|a| a == "--any");
    let cap: u64 = arg(args, "--seconds").and_then(|s| s.parse().ok()).unwrap_or(150);
    let t0 = Instant::now();
    let menu = types::menu();
    for run in from..to {
        if t0.elapsed().as_secs() > cap {
            break;
        }
        let spec = gen::make_run(seed, run, &menu);
        if spec.tasks.is_empty() && !any {
            continue;
        }
        let r = exec::run(&spec, by_name(&menu, &spec.ty).unwrap(), false);
        if let Some(v) = r.violations.iter().find(|v| any || v.class == "schedule_dependence" || v.class == "order_dependence") {
            println!("FIRST {} {}", run, v.class);
            return 1;
        }
    }
    println!("NONE");
    0
}

/// write a history replay file (explicit specs) and run it in a fresh child process; true if the last run fails there
fn history_reproduces(specs: &[RunSpec], class: &str, path: &str) -> bool {
    let j = J::obj()
        .set("property", J::s("C20"))
        .set("format", J::i(1))
        .set("kind", J::s("history"))
        .set("build", J::s(BUILD))
        .set("violation", J::obj().set("class", J::s(class)).set("detail", J::s("")))
        .set("history", J::Arr(specs.iter().map(|s| s.to_json()).collect()));
    if std::fs::write(path, j.to_string_pretty()).is_err() {
        return false;
    }
    let exe = std::env::current_exe().expect("current_exe");
    matches!(std::process::Command::new(exe).args(["replay", path]).output(), Ok(o) if o.status.code() == Some(1))
}

fn cmd_fingerprints(args: &[String]) -> i32 {
    let seed: u64 = arg(args, "--seed").and_then(|s| s.parse().ok()).unwrap_or(20);
    let from: u64 = arg(args, "--from").and_then(|s| s.parse().ok()).unwrap_or(0);
    let to: u64 = arg(args, "--to").and_then(|s| s.parse().ok()).unwrap_or(100);
    let threads: usize = arg(args, "--threads").and_then(|s| s.parse().ok()).unwrap_or(1);
    let menu = types::menu();
    if let Some(list) = arg(args, "--only") {
        // exactly these run indices (the interpreter cross-check passes the indices the native pass selected, so that
        // the interpreter does not have to generate thousands of runs just to skip them)
        for i in list.split(',').filter_map(|x| x.parse::<u64>().ok()) {
            let spec = gen::make_run(seed, i, &menu);
            let ty = by_name(&menu, &spec.ty).unwrap();
            let r = exec::run(&spec, ty, false);
            println!("{} {:016x} {} {}", i, r.fingerprint, r.draws, r.violations.len());
        }
        return 0;
    }
    if let Some(count) = arg(args, "--fill-focus").and_then(|s| s.parse::<usize>().ok()) {
        // for the interpreter cross-check (Miri): the first `count` runs at or after `from` that exercise the
        // unsafe byte view (Fill / try_fill_slice) or Standard on a small type; single-threaded, in index order
        let mut i = from;
        let mut done = 0;
        while done < count && i < from + 1_000_000 {
            let spec = gen::make_run(seed, i, &menu);
            let ty = by_name(&menu, &spec.ty).unwrap();
            let wanted = ty.bytes() <= 40
                && spec.ops.len() <= 6
                && spec.ops.iter().map(|o| o.calls.len()).sum::<usize>() <= 24
                && spec.ops.iter().any(|o| matches!(o.kind, spec::OpKind::Fill { .. } | spec::OpKind::FillVsElem { .. }))
                // nothing an interpreter would need hours for: no megabyte fills, no stalls of tens of thousands of draws
                && spec.ops.iter().all(|o| match &o.kind {
                    spec::OpKind::Fill { len, .. } | spec::OpKind::FillVsElem { len, .. } => len * ty.bytes() <= 8192,
                    _ => true,
                })
                && spec.ops.iter().all(|o| o.calls.iter().all(|c| c.iter().all(|p| !matches!(p, simrng::Plan::RepeatN(_))) && c.len() <= 40));
            if wanted {
                let r = exec::run(&spec, ty, false);
                println!("{} {:016x} {} {}", i, r.fingerprint, r.draws, r.violations.len());
                done += 1;
            }
            i += 1;
        }
        return 0;
    }
    if args.iter().any(|a| a == "--each") {
        // one line per run, in index order, computed by `threads` workers
        let res: Mutex<Vec<(u64, u64, u64)>> = Mutex::new(Vec::new());
        let next = AtomicU64::new(from);
        std::thread::scope(|s| {
            for _ in 0..threads {
                s.spawn(|| loop {
                    let i = next.fetch_add(1, Ordering::Relaxed);
                    if i >= to {
                        break;
                    }
                    let spec = gen::make_run(seed, i, &menu);
                    let r = exec::run(&spec, by_name(&menu, &spec.ty).unwrap(), false);
                    res.lock().unwrap().push((i, r.fingerprint, r.draws));
                });
            }
        });
        let mut v = res.into_inner().unwrap();
        v.sort();
        for (i, f, d) in v {
            println!("{} {:016x} {}", i, f, d);
        }
    } else {
        let a = explore(&menu, seed, from, to, threads);
        println!("{:016x} {:016x} runs={} calls={} draws={} states={} distinct={}", a.fp_xor, a.fp_sum, a.runs, a.calls, a.draws, a.states.len(), a.distinct.len());
    }
    0
}

fn cmd_show(args: &[String]) -> i32 {
    let seed: u64 = arg(args, "--seed").and_then(|s| s.parse().ok()).unwrap_or(20);
    let run: u64 = arg(args, "--run").and_then(|s| s.parse().ok()).unwrap_or(0);
    let menu = types::menu();
    let spec = gen::make_run(seed, run, &menu);
    let r = exec::run(&spec, by_name(&menu, &spec.ty).unwrap(), true);
    println!("{}", spec.to_json().to_string_pretty());
    for l in &r.log {
        println!("{}", l);
    }
    for v in &r.violations {
        println!("VIOLATION-CLASS {} op {} call {}: {}", v.class, v.op, v.call, v.detail);
    }
    println!("fingerprint {:016x}", r.fingerprint);
    0
}

fn cmd_replay(args: &[String]) -> i32 {
    let Some(path) = args.get(2) else {
        eprintln!("usage: sim replay <file>");
        return 2;
    };
    let text = match std::fs::read_to_string(path) {
        Ok(t) => t,
        Err(e) => {
            eprintln!("cannot read {}: {}", path, e);
            return 2;
        }
    };
    let j = match J::parse(&text) {
        Ok(j) => j,
        Err(e) => {
            eprintln!("bad replay file: {}", e);
            return 2;
        }
    };
    let want_build = j.get("build").and_then(|x| x.str()).unwrap_or(BUILD);
    if want_build != BUILD {
        // the driver picks the right binary; this is a guard
        println!("WRONG-BUILD file wants {} this is {}", want_build, BUILD);
        return 3;
    }
    let class = j.get("violation").and_then(|v| v.get("class")).and_then(|x| x.str()).unwrap_or("").to_string();
    let menu = types::menu();
    match j.get("kind").and_then(|x| x.str()) {
        Some("history") => {
            // a sequence of complete runs executed in order in this (fresh) process: the last one must show the violation
            let Some(runs) = j.get("history").and_then(|x| x.arr()) else { return 2 };
            let mut last: Option<exec::RunResult> = None;
            for (i, r) in runs.iter().enumerate() {
                let spec = match RunSpec::from_json(r) {
                    Ok(x) => x,
                    Err(e) => {
                        eprintln!("bad history entry {}: {}", i, e);
                        return 2;
                    }
                };
                let Some(ty) = by_name(&menu, &spec.ty) else { return 2 };
                if !exec::valid(&spec, ty) {
                    return 2;
                }
                last = Some(exec::run(&spec, ty, i + 1 == runs.len()));
            }
            let Some(r) = last else { return 2 };
            for l in &r.log {
                println!("{}", l);
            }
            match r.violations.iter().find(|v| v.class == class || class.is_empty()) {
                Some(v) => {
                    println!("REPRODUCED class={} after {} preceding run(s) in this process :: {}", v.class, runs.len() - 1, v.detail);
                    1
                }
                None => {
                    println!("NOT-REPRODUCED the last of {} runs shows no {} violation", runs.len(), class);
                    0
                }
            }
        }
        Some("sweep") => {
            let job = match SweepJob::from_json(&j) {
                Ok(x) => x,
                Err(e) => {
                    eprintln!("bad sweep replay: {}", e);
                    return 2;
                }
            };
            let Some(ty) = by_name(&menu, &job.ty) else { return 2 };
            let o = sweep::sweep_one(ty, &job, 16);
            match o.violation {
                Some(v) => {
                    println!("REPRODUCED class={} :: {}", v.class, v.detail);
                    if v.class == class || class.is_empty() {
                        1
                    } else {
                        println!("NOTE recorded class was {}", class);
                        1
                    }
                }
                None => {
                    println!("NOT-REPRODUCED sweep passed: {} accepted, {} rejected, fibre {}", o.accepted, o.rejected, o.fibre);
                    0
                }
            }
        }
        _ => {
            let spec = match RunSpec::from_json(&j) {
                Ok(x) => x,
                Err(e) => {
                    eprintln!("bad run replay: {}", e);
                    return 2;
                }
            };
            let Some(ty) = by_name(&menu, &spec.ty) else { return 2 };
            if !exec::valid(&spec, ty) {
                eprintln!("replay file is not a well-formed run for {}", spec.ty);
                return 2;
            }
            let r = exec::run(&spec, ty, true);
            for l in &r.log {
                println!("{}", l);
            }
            if r.violations.is_empty() {
                println!("NOT-REPRODUCED no violation (fingerprint {:016x})", r.fingerprint);
                return 0;
            }
            for v in &r.violations {
                println!("REPRODUCED class={} op={} call={} :: {}", v.class, v.op, v.call, v.detail);
            }
            1
        }
    }
}
