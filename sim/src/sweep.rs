//! Complete word-space scripts (exact preimage counts, R3 in both directions) for instantiations whose
//! attempts request W <= 32 bits. For one (type, low, high, entry point) the scripted RNG serves EVERY
//! W-bit word once as the first answer of a call; a second request within the call marks it rejected.
//! This is a complete enumeration of the environment's answer space for one attempt, reported separately
//! from the seeded exploration (`exhaustive_over_words`).

use crate::json::{hex, unhex, J};
use crate::refint;
use crate::simrng::SimRng;
use crate::types::TyObj;
use std::sync::atomic::{AtomicU32, AtomicU64, AtomicU8, Ordering};

#[derive(Clone, Copy, Debug, PartialEq, Eq, PartialOrd, Ord)]
pub enum Entry {
    /// Uniform::new_inclusive(low, high).sample
    UniInc,
    /// Uniform::new(low, high + 1).sample
    UniExc,
    /// sample_single_inclusive(low, high)
    SingleInc,
    /// sample_single(low, high + 1)
    SingleExc,
    /// rng.gen_range(low..=high)
    GenRangeInc,
}

impl Entry {
    pub fn name(self) -> &'static str {
        match self {
            Entry::UniInc => "Uniform::new_inclusive+sample",
            Entry::UniExc => "Uniform::new+sample",
            Entry::SingleInc => "sample_single_inclusive",
            Entry::SingleExc => "sample_single",
            Entry::GenRangeInc => "gen_range(low..=high)",
        }
    }
    pub fn all() -> [Entry; 5] {
        [Entry::UniInc, Entry::UniExc, Entry::SingleInc, Entry::SingleExc, Entry::GenRangeInc]
    }
    pub fn from_name(s: &str) -> Option<Entry> {
        Entry::all().into_iter().find(|e| e.name() == s)
    }
    pub fn exclusive(self) -> bool {
        matches!(self, Entry::UniExc | Entry::SingleExc)
    }
}

#[derive(Clone, Debug)]
pub struct SweepJob {
    pub ty: String,
    pub low: Vec<u8>,
    pub high_incl: Vec<u8>,
    pub entry: Entry,
    /// fault history before the sweep: one call of the same entry point on the same bounds during which the RNG
    /// fails — 0 none, 1 panics on the first draw, 2 reports an error on the first draw, 3 delivers an all-ones word
    /// and panics on the next draw, 4 delivers a zero word and panics on the next draw. The call's outcome is ignored;
    /// what is checked is that the sampler still has exactly equal fibres afterwards (crash, then verify).
    pub preamble: u8,
}

#[derive(Clone, Debug)]
pub struct SweepViolation {
    pub class: &'static str,
    pub detail: String,
}

#[derive(Clone, Debug, Default)]
pub struct SweepOutcome {
    pub words: u64,
    pub accepted: u64,
    pub rejected: u64,
    /// common fibre size when the sweep passed
    pub fibre: u64,
    pub range_size: u64,
    pub wbits: u32,
    pub violation: Option<SweepViolation>,
    /// the sampler never accepted a first word, or asked for a width other than the type's: the
    /// one-request-per-attempt reading does not apply; nothing can be concluded (never a VIOLATION)
    pub inapplicable: Option<String>,
}

enum Counts {
    Wide(Vec<AtomicU32>),
    Narrow(Vec<AtomicU8>),
}

impl Counts {
    fn new(r: u64) -> Counts {
        if r <= (1 << 24) {
            Counts::Wide((0..r).map(|_| AtomicU32::new(0)).collect())
        } else {
            Counts::Narrow((0..r).map(|_| AtomicU8::new(0)).collect())
        }
    }
    #[inline]
    fn bump(&self, i: u64) {
        match self {
            Counts::Wide(v) => {
                v[i as usize].fetch_add(1, Ordering::Relaxed);
            }
            Counts::Narrow(v) => {
                // r > 2^24 and W <= 32 => fibre size <= 255; saturate rather than wrap
                let _ = v[i as usize].fetch_update(Ordering::Relaxed, Ordering::Relaxed, |x| Some(x.saturating_add(1)));
            }
        }
    }
    fn get(&self, i: u64) -> u64 {
        match self {
            Counts::Wide(v) => v[i as usize].load(Ordering::Relaxed) as u64,
            Counts::Narrow(v) => v[i as usize].load(Ordering::Relaxed) as u64,
        }
    }
}

fn le_word(v: &[u8]) -> u64 {
    let mut b = [0u8; 8];
    b[..v.len()].copy_from_slice(v);
    u64::from_le_bytes(b)
}

/// run one complete sweep with `threads` workers over the word space
pub fn sweep_one(ty: &dyn TyObj, job: &SweepJob, threads: usize) -> SweepOutcome {
    let wbytes = ty.bytes();
    assert!(wbytes <= 4, "sweeps need W <= 32");
    let wbits = (wbytes * 8) as u32;
    let nwords: u64 = 1u64 << wbits;
    let r: u64 = match refint::range_size(&job.low, &job.high_incl) {
        Some(r) => refint::to_u64(&r).unwrap(),
        None => nwords,
    };
    let mut out = SweepOutcome { words: nwords, range_size: r, wbits, ..Default::default() };
    let high_api = if job.entry.exclusive() { refint::add_small(&job.high_incl, 1) } else { job.high_incl.clone() };
    let counts = Counts::new(r);
    let accepted = AtomicU64::new(0);
    let rejected = AtomicU64::new(0);
    let first_viol: std::sync::Mutex<Option<(u64, SweepViolation)>> = std::sync::Mutex::new(None);
    let wrong_width = AtomicU64::new(u64::MAX);
    let low_u = le_word(&job.low);
    let mask = if wbits == 32 { 0xFFFF_FFFFu64 } else { (1u64 << wbits) - 1 };

    let worker = |from: u64, to: u64| {
        let mut rng = SimRng::for_sweep(0x5EED_0000 ^ from);
        let mut acc = 0u64;
        let mut rej = 0u64;
        let mut sink = |word: u64, val: u64, requests: u32, first_len: u32| -> bool {
            if requests >= 1 && first_len as usize != wbytes {
                wrong_width.store(first_len as u64, Ordering::Relaxed);
                return false;
            }
            // membership in exact integer arithmetic on the bit patterns: offset from low, modulo 2^W
            let off = val.wrapping_sub(low_u) & mask;
            if off >= r || (val & !mask) != 0 {
                let mut g = first_viol.lock().unwrap();
                if g.as_ref().map(|x| word < x.0).unwrap_or(true) {
                    *g = Some((word, SweepViolation { class: "sweep_membership", detail: format!("first word {:#x} ({} request(s)) returned {:#x} outside [{}, {}]", word, requests, val, hex(&job.low), hex(&job.high_incl)) }));
                }
                return false;
            }
            if requests == 1 {
                acc += 1;
                counts.bump(off);
            } else {
                rej += 1;
            }
            true
        };
        let res = ty.sweep_kernel(&job.low, &high_api, job.entry, from, to, &mut rng, &mut sink);
        if let Err((word, budget)) = res {
            let class = if budget { "sweep_no_return" } else { "sweep_panic" };
            let msg = crate::exec::take_last_panic();
            let mut g = first_viol.lock().unwrap();
            if g.as_ref().map(|x| word < x.0).unwrap_or(true) {
                *g = Some((word, SweepViolation { class, detail: format!("first word {:#x}: call did not return normally ({})", word, if budget { "draw budget exhausted while fresh words were flowing".to_string() } else { msg }) }));
            }
        }
        (acc, rej)
    };

    crate::exec::set_in_sim(true);
    if job.preamble != 0 {
        use crate::simrng::Plan;
        let plan: Vec<Plan> = match job.preamble {
            1 => vec![Plan::Panic],
            2 => vec![Plan::Err],
            3 => vec![Plan::Fixed(vec![0xFF; wbytes]), Plan::Panic, Plan::Panic],
            _ => vec![Plan::Fixed(vec![0; wbytes]), Plan::Panic, Plan::Panic],
        };
        let mut rng = SimRng::new(0xFA17_0000, false);
        rng.begin_call_vol(&plan, wbytes);
        let _ = std::panic::catch_unwind(std::panic::AssertUnwindSafe(|| {
            ty.one_call(&job.low, &high_api, job.entry, &mut rng);
        }));
    }
    if threads <= 1 || nwords < (1 << 20) {
        let (a, rj) = worker(0, nwords);
        accepted.fetch_add(a, Ordering::Relaxed);
        rejected.fetch_add(rj, Ordering::Relaxed);
    } else {
        let chunks = threads as u64 * 8;
        let next = AtomicU64::new(0);
        std::thread::scope(|s| {
            for _ in 0..threads {
                s.spawn(|| {
                    crate::exec::set_in_sim(true);
                    loop {
                        let c = next.fetch_add(1, Ordering::Relaxed);
                        if c >= chunks {
                            break;
                        }
                        let from = nwords / chunks * c;
                        let to = if c + 1 == chunks { nwords } else { nwords / chunks * (c + 1) };
                        let (a, rj) = worker(from, to);
                        accepted.fetch_add(a, Ordering::Relaxed);
                        rejected.fetch_add(rj, Ordering::Relaxed);
                    }
                    crate::exec::set_in_sim(false);
                });
            }
        });
    }
    crate::exec::set_in_sim(false);

    out.accepted = accepted.load(Ordering::Relaxed);
    out.rejected = rejected.load(Ordering::Relaxed);
    if let Some((_, v)) = first_viol.into_inner().unwrap() {
        out.violation = Some(v);
        return out;
    }
    let ww = wrong_width.load(Ordering::Relaxed);
    if ww != u64::MAX {
        out.inapplicable = Some(format!("the sampler's first request asked for {} bytes, not the type's {}", ww, wbytes));
        return out;
    }
    if out.accepted == 0 {
        out.inapplicable = Some("no first word was accepted: the one-request-per-attempt reading does not apply".into());
        return out;
    }
    // exact fibre sizes: all equal and >= 1
    let c0 = counts.get(0);
    let (mut minc, mut mini, mut maxc, mut maxi) = (c0, 0u64, c0, 0u64);
    for i in 1..r {
        let c = counts.get(i);
        if c < minc {
            minc = c;
            mini = i;
        }
        if c > maxc {
            maxc = c;
            maxi = i;
        }
    }
    if minc != maxc || minc == 0 {
        let val = |off: u64| hex(&refint::add(&job.low, &refint::from_u64(off, wbytes)));
        out.violation = Some(SweepViolation {
            class: "sweep_unequal_preimages",
            detail: format!(
                "over all 2^{} first words ({} accepted, {} rejected): value {} has {} accepted preimages but value {} has {} (range size {})",
                wbits, out.accepted, out.rejected, val(mini), minc, val(maxi), maxc, r
            ),
        });
        return out;
    }
    out.fibre = minc;
    out
}

impl SweepJob {
    pub fn to_json(&self) -> J {
        J::obj()
            .set("type", J::s(&self.ty))
            .set("low", J::Str(hex(&self.low)))
            .set("high_inclusive", J::Str(hex(&self.high_incl)))
            .set("entry", J::s(self.entry.name()))
            .set("fault_preamble", J::i(self.preamble as i64))
    }
    pub fn from_json(j: &J) -> Result<SweepJob, String> {
        Ok(SweepJob {
            ty: j.get("type").and_then(|x| x.str()).ok_or("type")?.to_string(),
            low: unhex(j.get("low").and_then(|x| x.str()).ok_or("low")?)?,
            high_incl: unhex(j.get("high_inclusive").and_then(|x| x.str()).ok_or("high_inclusive")?)?,
            entry: Entry::from_name(j.get("entry").and_then(|x| x.str()).ok_or("entry")?).ok_or("bad entry")?,
            preamble: j.get("fault_preamble").and_then(|x| x.int()).unwrap_or(0) as u8,
        })
    }
}

