//! Minimal JSON value, writer and parser (no dependency on serde_json: it is not in /repo's lockfile).

use std::fmt::Write as _;

#[derive(Clone, Debug, PartialEq)]
pub enum J {
    Null,
    Bool(bool),
    Int(i128),
    Float(f64),
    Str(String),
    Arr(Vec<J>),
    Obj(Vec<(String, J)>),
}

impl J {
    pub fn obj() -> J {
        J::Obj(Vec::new())
    }
    pub fn set(mut self, k: &str, v: J) -> J {
        self.put(k, v);
        self
    }
    pub fn put(&mut self, k: &str, v: J) {
        if let J::Obj(o) = self {
            if let Some(e) = o.iter_mut().find(|(kk, _)| kk == k) {
                e.1 = v;
            } else {
                o.push((k.to_string(), v));
            }
        } else {
            panic!("put on non-object");
        }
    }
    pub fn get(&self, k: &str) -> Option<&J> {
        match self {
            J::Obj(o) => o.iter().find(|(kk, _)| kk == k).map(|(_, v)| v),
            _ => None,
        }
    }
    pub fn str(&self) -> Option<&str> {
        match self {
            J::Str(s) => Some(s),
            _ => None,
        }
    }
    pub fn int(&self) -> Option<i128> {
        match self {
            J::Int(i) => Some(*i),
            J::Float(f) if f.fract() == 0.0 => Some(*f as i128),
            _ => None,
        }
    }
    pub fn boolean(&self) -> Option<bool> {
        match self {
            J::Bool(b) => Some(*b),
            _ => None,
        }
    }
    pub fn arr(&self) -> Option<&Vec<J>> {
        match self {
            J::Arr(a) => Some(a),
            _ => None,
        }
    }
    pub fn s(v: &str) -> J {
        J::Str(v.to_string())
    }
    pub fn i<T: Into<i128>>(v: T) -> J {
        J::Int(v.into())
    }
    pub fn u(v: usize) -> J {
        J::Int(v as i128)
    }

    pub fn to_string_pretty(&self) -> String {
        let mut s = String::new();
        self.write(&mut s, Some(0));
        s.push('\n');
        s
    }
    pub fn to_string_compact(&self) -> String {
        let mut s = String::new();
        self.write(&mut s, None);
        s
    }

    fn write(&self, out: &mut String, indent: Option<usize>) {
        match self {
            J::Null => out.push_str("null"),
            J::Bool(b) => out.push_str(if *b { "true" } else { "false" }),
            J::Int(i) => {
                let _ = write!(out, "{}", i);
            }
            J::Float(f) => {
                if f.is_finite() {
                    if f.fract() == 0.0 && f.abs() < 1e15 {
                        let _ = write!(out, "{:.1}", f);
                    } else {
                        let _ = write!(out, "{}", f);
                    }
                } else {
                    out.push_str("null");
                }
            }
            J::Str(s) => write_str(out, s),
            J::Arr(a) => {
                // arrays of scalars stay on one line
                let scalar = a.iter().all(|x| !matches!(x, J::Arr(_) | J::Obj(_)));
                if a.is_empty() {
                    out.push_str("[]");
                } else if scalar || indent.is_none() {
                    out.push('[');
                    for (i, x) in a.iter().enumerate() {
                        if i > 0 {
                            out.push_str(if indent.is_some() { ", " } else { "," });
                        }
                        x.write(out, None);
                    }
                    out.push(']');
                } else {
                    let ind = indent.unwrap() + 1;
                    out.push_str("[\n");
                    for (i, x) in a.iter().enumerate() {
                        pad(out, ind);
                        x.write(out, Some(ind));
                        if i + 1 < a.len() {
                            out.push(',');
                        }
                        out.push('\n');
                    }
                    pad(out, ind - 1);
                    out.push(']');
                }
            }
            J::Obj(o) => {
                if o.is_empty() {
                    out.push_str("{}");
                } else if let Some(indv) = indent {
                    let ind = indv + 1;
                    out.push_str("{\n");
                    for (i, (k, v)) in o.iter().enumerate() {
                        pad(out, ind);
                        write_str(out, k);
                        out.push_str(": ");
                        v.write(out, Some(ind));
                        if i + 1 < o.len() {
                            out.push(',');
                        }
                        out.push('\n');
                    }
                    pad(out, ind - 1);
                    out.push('}');
                } else {
                    out.push('{');
                    for (i, (k, v)) in o.iter().enumerate() {
                        if i > 0 {
                            out.push(',');
                        }
                        write_str(out, k);
                        out.push(':');
                        v.write(out, None);
                    }
                    out.push('}');
                }
            }
        }
    }

    pub fn parse(s: &str) -> Result<J, String> {
        let mut p = Parser { b: s.as_bytes(), i: 0 };
        p.ws();
        let v = p.value()?;
        p.ws();
        if p.i != p.b.len() {
            return Err(format!("trailing data at {}", p.i));
        }
        Ok(v)
    }
}

fn pad(out: &mut String, n: usize) {
    for _ in 0..n {
        out.push(' ');
    }
}

fn write_str(out: &mut String, s: &str) {
    out.push('"');
    for c in s.chars() {
        match c {
            '"' => out.push_str("\\\""),
            '\\' => out.push_str("\\\\"),
            '\n' => out.push_str("\\n"),
            '\r' => out.push_str("\\r"),
            '\t' => out.push_str("\\t"),
            c if (c as u32) < 0x20 => {
                let _ = write!(out, "\\u{:04x}", c as u32);
            }
            c => out.push(c),
        }
    }
    out.push('"');
}

struct Parser<'a> {
    b: &'a [u8],
    i: usize,
}

impl<'a> Parser<'a> {
    fn ws(&mut self) {
        while self.i < self.b.len() && matches!(self.b[self.i], b' ' | b'\n' | b'\r' | b'\t') {
            self.i += 1;
        }
    }
    fn value(&mut self) -> Result<J, String> {
        self.ws();
        if self.i >= self.b.len() {
            return Err("eof".into());
        }
        match self.b[self.i] {
            b'{' => {
                self.i += 1;
                let mut o = Vec::new();
                self.ws();
                if self.peek() == Some(b'}') {
                    self.i += 1;
                    return Ok(J::Obj(o));
                }
                loop {
                    self.ws();
                    let k = self.string()?;
                    self.ws();
                    self.expect(b':')?;
                    let v = self.value()?;
                    o.push((k, v));
                    self.ws();
                    match self.peek() {
                        Some(b',') => self.i += 1,
                        Some(b'}') => {
                            self.i += 1;
                            return Ok(J::Obj(o));
                        }
                        _ => return Err(format!("bad object at {}", self.i)),
                    }
                }
            }
            b'[' => {
                self.i += 1;
                let mut a = Vec::new();
                self.ws();
                if self.peek() == Some(b']') {
                    self.i += 1;
                    return Ok(J::Arr(a));
                }
                loop {
                    a.push(self.value()?);
                    self.ws();
                    match self.peek() {
                        Some(b',') => self.i += 1,
                        Some(b']') => {
                            self.i += 1;
                            return Ok(J::Arr(a));
                        }
                        _ => return Err(format!("bad array at {}", self.i)),
                    }
                }
            }
            b'"' => Ok(J::Str(self.string()?)),
            b't' => self.lit("true", J::Bool(true)),
            b'f' => self.lit("false", J::Bool(false)),
            b'n' => self.lit("null", J::Null),
            _ => self.number(),
        }
    }
    fn peek(&self) -> Option<u8> {
        self.b.get(self.i).copied()
    }
    fn expect(&mut self, c: u8) -> Result<(), String> {
        if self.peek() == Some(c) {
            self.i += 1;
            Ok(())
        } else {
            Err(format!("expected {} at {}", c as char, self.i))
        }
    }
    fn lit(&mut self, s: &str, v: J) -> Result<J, String> {
        if self.b[self.i..].starts_with(s.as_bytes()) {
            self.i += s.len();
            Ok(v)
        } else {
            Err(format!("bad literal at {}", self.i))
        }
    }
    fn number(&mut self) -> Result<J, String> {
        let st = self.i;
        let mut float = false;
        while self.i < self.b.len() {
            match self.b[self.i] {
                b'0'..=b'9' | b'-' | b'+' => self.i += 1,
                b'.' | b'e' | b'E' => {
                    float = true;
                    self.i += 1
                }
                _ => break,
            }
        }
        let t = std::str::from_utf8(&self.b[st..self.i]).unwrap();
        if t.is_empty() {
            return Err(format!("bad value at {}", st));
        }
        if float {
            t.parse::<f64>().map(J::Float).map_err(|e| e.to_string())
        } else {
            t.parse::<i128>().map(J::Int).map_err(|e| e.to_string())
        }
    }
    fn string(&mut self) -> Result<String, String> {
        self.expect(b'"')?;
        let mut out = String::new();
        loop {
            if self.i >= self.b.len() {
                return Err("eof in string".into());
            }
            let c = self.b[self.i];
            self.i += 1;
            match c {
                b'"' => return Ok(out),
                b'\\' => {
                    let e = self.b.get(self.i).copied().ok_or("eof")?;
                    self.i += 1;
                    match e {
                        b'n' => out.push('\n'),
                        b'r' => out.push('\r'),
                        b't' => out.push('\t'),
                        b'b' => out.push('\u{8}'),
                        b'f' => out.push('\u{c}'),
                        b'u' => {
                            let h = std::str::from_utf8(&self.b[self.i..self.i + 4]).map_err(|e| e.to_string())?;
                            let cp = u32::from_str_radix(h, 16).map_err(|e| e.to_string())?;
                            self.i += 4;
                            out.push(char::from_u32(cp).unwrap_or('?'));
                        }
                        o => out.push(o as char),
                    }
                }
                _ => {
                    // copy raw utf-8 bytes
                    let st = self.i - 1;
                    let mut en = self.i;
                    while en < self.b.len() && self.b[en] != b'"' && self.b[en] != b'\\' {
                        en += 1;
                    }
                    out.push_str(std::str::from_utf8(&self.b[st..en]).map_err(|e| e.to_string())?);
                    self.i = en;
                }
            }
        }
    }
}

pub fn hex(b: &[u8]) -> String {
    let mut s = String::with_capacity(b.len() * 2);
    for x in b {
        let _ = write!(s, "{:02x}", x);
    }
    s
}

pub fn unhex(s: &str) -> Result<Vec<u8>, String> {
    if s.len() % 2 != 0 {
        return Err("odd hex".into());
    }
    (0..s.len() / 2)
        .map(|i| u8::from_str_radix(&s[2 * i..2 * i + 2], 16).map_err(|e| e.to_string()))
        .collect()
}
