#!/bin/bash
# Build the simulator offline (both build modes) and cross-check its reference big-integer against Python.
set -e
cd "$(dirname "$0")"
export CARGO_NET_OFFLINE=true
( cd sim && cargo build --offline --profile dbg --target-dir target/t-dbg --message-format=short 2>&1 | grep -E "^error|^src/.*error|Finished" || true ) &
( cd sim && cargo build --offline --profile rel --target-dir target/t-rel --message-format=short 2>&1 | grep -E "^error|^src/.*error|Finished" || true ) &
wait
test -x sim/target/t-dbg/dbg/sim && test -x sim/target/t-rel/rel/sim
sim/target/t-dbg/dbg/sim refint-selftest --seed 7 --n 3000 | python3 tools/refint_check.py
echo "setup ok"
