// Exhaustive self-check of range sampling (property C20) for the rewrite `half_zone`.
//
// For the 8-bit types and ALL (low, high) pairs, for a few dozen ranges of the 16-bit types and for a
// handful of ranges of the 24-bit types (which take the code paths of every width above 16 bits),
// every possible first RNG word is scripted; later words come from a counter-based generator.
// Asserted for Uniform::new_inclusive(..).sample, Uniform::new(..).sample, gen_range(low..=high), gen_range(low..high):
//   * every result lies in the requested range (also when the first word is rejected);
//   * the accepted first words (calls that consumed at most one word) hit every value of the range
//     the same, non-zero, number of times;
//   * at least 1/4 of the first words are accepted; no call consumes an unreasonable number of bytes.
#![cfg(feature = "rand")]

use bnum::{BIntD16, BIntD8, BUintD16, BUintD8};
use rand::distributions::{Distribution, Uniform};
use rand::{Rng, RngCore};

struct Scripted {
    first: [u8; 4],
    first_len: usize,
    consumed: usize,
    limit: usize,
    ctr: u64,
}

impl Scripted {
    fn new(word: u32, width: usize) -> Self {
        Scripted {
            first: word.to_le_bytes(), // the first word, little-endian
            first_len: width,
            consumed: 0,
            limit: 100_000,
            ctr: (word as u64).wrapping_mul(0x9E37_79B9_7F4A_7C15) ^ 0xD1B5_4A32_D192_ED03,
        }
    }

    fn next_byte(&mut self) -> u8 {
        // splitmix64 step
        self.ctr = self.ctr.wrapping_add(0x9E37_79B9_7F4A_7C15);
        let mut z = self.ctr;
        z = (z ^ (z >> 30)).wrapping_mul(0xBF58_476D_1CE4_E5B9);
        z = (z ^ (z >> 27)).wrapping_mul(0x94D0_49BB_1331_11EB);
        ((z ^ (z >> 31)) >> 24) as u8
    }
}

impl RngCore for Scripted {
    fn next_u32(&mut self) -> u32 {
        let mut b = [0u8; 4];
        self.fill_bytes(&mut b);
        u32::from_le_bytes(b)
    }
    fn next_u64(&mut self) -> u64 {
        let mut b = [0u8; 8];
        self.fill_bytes(&mut b);
        u64::from_le_bytes(b)
    }
    fn fill_bytes(&mut self, dest: &mut [u8]) {
        for d in dest.iter_mut() {
            *d = if self.consumed < self.first_len {
                self.first[self.consumed]
            } else {
                self.next_byte()
            };
            self.consumed += 1;
            assert!(self.consumed < self.limit, "sampler does not seem to terminate");
        }
    }
    fn try_fill_bytes(&mut self, dest: &mut [u8]) -> Result<(), rand::Error> {
        self.fill_bytes(dest);
        Ok(())
    }
}

trait Small: Copy + rand::distributions::uniform::SampleUniform + PartialOrd + core::fmt::Debug {
    const WIDTH: usize; // bytes
    const MIN: i64;
    const MAX: i64;
    fn from_i64(v: i64) -> Self;
    fn to_i64(self) -> i64;
}

impl Small for BUintD8<1> {
    const WIDTH: usize = 1;
    const MIN: i64 = 0;
    const MAX: i64 = 255;
    fn from_i64(v: i64) -> Self {
        Self::from_digits([v as u8])
    }
    fn to_i64(self) -> i64 {
        self.digits()[0] as i64
    }
}

impl Small for BIntD8<1> {
    const WIDTH: usize = 1;
    const MIN: i64 = -128;
    const MAX: i64 = 127;
    fn from_i64(v: i64) -> Self {
        Self::from_bits(BUintD8::from_digits([v as i8 as u8]))
    }
    fn to_i64(self) -> i64 {
        self.to_bits().digits()[0] as i8 as i64
    }
}

impl Small for BUintD8<2> {
    const WIDTH: usize = 2;
    const MIN: i64 = 0;
    const MAX: i64 = 65535;
    fn from_i64(v: i64) -> Self {
        Self::from_digits((v as u16).to_le_bytes())
    }
    fn to_i64(self) -> i64 {
        u16::from_le_bytes(*self.digits()) as i64
    }
}

impl Small for BIntD8<2> {
    const WIDTH: usize = 2;
    const MIN: i64 = -32768;
    const MAX: i64 = 32767;
    fn from_i64(v: i64) -> Self {
        Self::from_bits(BUintD8::from_digits((v as i16 as u16).to_le_bytes()))
    }
    fn to_i64(self) -> i64 {
        u16::from_le_bytes(*self.to_bits().digits()) as i16 as i64
    }
}

impl Small for BUintD8<3> {
    const WIDTH: usize = 3;
    const MIN: i64 = 0;
    const MAX: i64 = (1 << 24) - 1;
    fn from_i64(v: i64) -> Self {
        let b = (v as u32).to_le_bytes();
        Self::from_digits([b[0], b[1], b[2]])
    }
    fn to_i64(self) -> i64 {
        let d = self.digits();
        u32::from_le_bytes([d[0], d[1], d[2], 0]) as i64
    }
}

impl Small for BIntD8<3> {
    const WIDTH: usize = 3;
    const MIN: i64 = -(1 << 23);
    const MAX: i64 = (1 << 23) - 1;
    fn from_i64(v: i64) -> Self {
        let b = (v as i32 as u32).to_le_bytes();
        Self::from_bits(BUintD8::from_digits([b[0], b[1], b[2]]))
    }
    fn to_i64(self) -> i64 {
        let d = *self.to_bits().digits();
        (((u32::from_le_bytes([d[0], d[1], d[2], 0]) << 8) as i32) >> 8) as i64
    }
}

impl Small for BUintD16<1> {
    const WIDTH: usize = 2;
    const MIN: i64 = 0;
    const MAX: i64 = 65535;
    fn from_i64(v: i64) -> Self {
        Self::from_digits([v as u16])
    }
    fn to_i64(self) -> i64 {
        self.digits()[0] as i64
    }
}

impl Small for BIntD16<1> {
    const WIDTH: usize = 2;
    const MIN: i64 = -32768;
    const MAX: i64 = 32767;
    fn from_i64(v: i64) -> Self {
        Self::from_bits(BUintD16::from_digits([v as i16 as u16]))
    }
    fn to_i64(self) -> i64 {
        self.to_bits().digits()[0] as i16 as i64
    }
}

#[derive(Clone, Copy, Debug)]
enum Api {
    UniformInclusive,
    UniformExclusive,
    GenRangeInclusive,
    GenRangeExclusive,
}

const APIS: [Api; 4] = [
    Api::UniformInclusive,
    Api::UniformExclusive,
    Api::GenRangeInclusive,
    Api::GenRangeExclusive,
];

/// Checks the inclusive range [low, high] through the given API (exclusive APIs are called with high + 1).
fn check_range<T: Small>(api: Api, low: i64, high: i64, counts: &mut Vec<u32>) {
    assert!(T::MIN <= low && low <= high && high <= T::MAX);
    let exclusive = matches!(api, Api::UniformExclusive | Api::GenRangeExclusive);
    if exclusive && high == T::MAX {
        return; // not expressible as a half-open range
    }
    let size = (high - low + 1) as usize;
    let words = 1u32 << (8 * T::WIDTH);
    counts.clear();
    counts.resize(size, 0);
    let lo_t = T::from_i64(low);
    let hi_t = T::from_i64(if exclusive { high + 1 } else { high });
    assert_eq!(lo_t.to_i64(), low);
    let dist = match api {
        Api::UniformInclusive => Some(Uniform::new_inclusive(lo_t, hi_t)),
        Api::UniformExclusive => Some(Uniform::new(lo_t, hi_t)),
        _ => None,
    };
    let mut accepted = 0u32;
    for word in 0..words {
        let mut rng = Scripted::new(word, T::WIDTH);
        let r: T = match api {
            Api::UniformInclusive | Api::UniformExclusive => dist.as_ref().unwrap().sample(&mut rng),
            Api::GenRangeInclusive => rng.gen_range(lo_t..=hi_t),
            Api::GenRangeExclusive => rng.gen_range(lo_t..hi_t),
        };
        let r = r.to_i64();
        assert!(
            low <= r && r <= high,
            "{:?} [{}, {}] word {:#x}: result {} out of range",
            api, low, high, word, r
        );
        assert!(
            rng.consumed % T::WIDTH == 0,
            "{:?} [{}, {}] word {:#x}: consumed {} bytes, not a whole number of words",
            api, low, high, word, rng.consumed
        );
        if rng.consumed <= T::WIDTH {
            accepted += 1;
            counts[(r - low) as usize] += 1;
        }
    }
    let c0 = counts[0];
    assert!(c0 > 0, "{:?} [{}, {}]: value {} has no accepted word", api, low, high, low);
    for (i, &c) in counts.iter().enumerate() {
        assert_eq!(
            c, c0,
            "{:?} [{}, {}]: value {} has {} accepted words but value {} has {}",
            api, low, high, low + i as i64, c, low, c0
        );
    }
    assert_eq!(accepted as usize, c0 as usize * size);
    assert!(
        accepted as u64 * 4 >= words as u64,
        "{:?} [{}, {}]: only {} of {} words accepted",
        api, low, high, accepted, words
    );
}

fn exhaustive_8bit<T: Small>() {
    let mut counts = Vec::new();
    for low in T::MIN..=T::MAX {
        for high in low..=T::MAX {
            for api in APIS {
                check_range::<T>(api, low, high, &mut counts);
            }
        }
    }
}

fn ranges_16bit<T: Small>() {
    let (min, max) = (T::MIN, T::MAX);
    let mid = (min + max + 1) / 2; // 0 for signed, 32768 for unsigned
    let mut ranges: Vec<(i64, i64)> = vec![
        (min, max),             // full range
        (min, max - 1),         // 65535 values
        (min + 1, max),         // 65535 values
        (min, min),             // single values
        (max, max),
        (mid, mid),
        (mid - 1, mid),         // 2 values (spanning zero when signed)
        (mid - 1, mid + 1),     // 3 values
        (min, min + 1),
        (max - 1, max),
        (max - 2, max),
        (min, mid - 1),         // 2^15 values
        (mid, max),             // 2^15 values
        (min + 5, mid + 4),     // 2^15 values
        (min, mid),             // 2^15 + 1 values
        (mid - 1, max),         // 2^15 + 1 values
        (min + 1, mid - 1),     // 2^15 - 1 values
        (mid - 100, mid + 100), // 201 values
        (mid - 128, mid + 127), // 256 values
        (mid - 128, mid + 128), // 257 values
        (mid - 127, mid + 127), // 255 values
        (min + 7, min + 7 + 9), // 10 values
        (mid - 21845, mid + 21845), // 43691 values
        (mid - 10923, mid + 10922), // 21846 values: just over 2^16 / 3
        (mid - 10922, mid + 10922), // 21845 values: exactly 65535 / 3
        (min + 3, max - 3),
        (min + 12345, max - 4321),
        (mid - 5000, mid + 4999), // 10000 values
        (mid - 1, mid + 6),     // 8 values
        (mid + 1000, mid + 1000 + 4095), // 4096 values
        (mid + 1000, mid + 1000 + 4096), // 4097 values
        (mid - 16384, mid + 16383), // 2^15 values spanning the middle
        (mid - 16384, mid + 16384), // 2^15 + 1 values
        (mid - 8192, mid + 8191), // 2^14 values
        (mid - 8192, mid + 8192), // 2^14 + 1 values
        (mid - 3, mid + 2),     // 6 values
    ];
    ranges.sort();
    ranges.dedup();
    let mut counts = Vec::new();
    for (low, high) in ranges {
        for api in APIS {
            check_range::<T>(api, low, high, &mut counts);
        }
    }
}

#[test]
fn exhaustive_u8() {
    exhaustive_8bit::<BUintD8<1>>();
}

#[test]
fn exhaustive_i8() {
    exhaustive_8bit::<BIntD8<1>>();
}

#[test]
fn ranges_u16_two_u8_digits() {
    ranges_16bit::<BUintD8<2>>();
}

#[test]
fn ranges_i16_two_u8_digits() {
    ranges_16bit::<BIntD8<2>>();
}

#[test]
fn ranges_u16_one_u16_digit() {
    ranges_16bit::<BUintD16<1>>();
}

#[test]
fn ranges_i16_one_u16_digit() {
    ranges_16bit::<BIntD16<1>>();
}

// 24-bit types take the code paths used for every width above 16 bits; all 2^24 words for a few ranges.
fn ranges_24bit<T: Small>(apis: &[Api]) {
    let (min, max) = (T::MIN, T::MAX);
    let mid = (min + max + 1) / 2;
    let ranges = [
        (mid - 1, mid + 1),               // 3 values
        (mid, mid),                       // 1 value
        (min, max),                       // full range
        (min + 1, min + 5_592_406),       // just over 2^24 / 3 values
    ];
    let mut counts = Vec::new();
    for (low, high) in ranges {
        for &api in apis {
            check_range::<T>(api, low, high, &mut counts);
        }
    }
}

#[test]
fn ranges_u24() {
    ranges_24bit::<BUintD8<3>>(&[Api::GenRangeInclusive]);
}

#[test]
fn ranges_i24() {
    ranges_24bit::<BIntD8<3>>(&[Api::UniformInclusive]);
}

// Wide types: membership (and absence of overflow panics in debug builds) on random streams.
macro_rules! wide_membership {
    ($name: ident, $U: ty, $I: ty) => {
        #[test]
        fn $name() {
            type U = $U;
            type I = $I;
            let mut rng = Scripted::new(0x1234, 0);
            rng.limit = usize::MAX;
            let one = U::ONE;
            let bits = U::BITS;
            let mut ubounds = vec![U::MIN, one, U::MAX, U::MAX - one, one << (bits - 1), (one << (bits - 1)) - one, (one << (bits - 1)) + one, one << (bits / 2)];
            for _ in 0..8 {
                ubounds.push(rng.gen());
            }
            let mut ibounds = vec![I::MIN, I::MAX, I::ZERO, I::ONE, I::NEG_ONE, I::MIN + I::ONE, I::MAX - I::ONE];
            for _ in 0..8 {
                ibounds.push(rng.gen());
            }
            for &a in &ubounds {
                for &b in &ubounds {
                    let (lo, hi) = if a <= b { (a, b) } else { (b, a) };
                    let d = Uniform::new_inclusive(lo, hi);
                    for _ in 0..20 {
                        let r = d.sample(&mut rng);
                        assert!(lo <= r && r <= hi);
                        let r = rng.gen_range(lo..=hi);
                        assert!(lo <= r && r <= hi);
                        if lo < hi {
                            let r = rng.gen_range(lo..hi);
                            assert!(lo <= r && r < hi);
                            let r = Uniform::new(lo, hi).sample(&mut rng);
                            assert!(lo <= r && r < hi);
                        }
                    }
                }
            }
            for &a in &ibounds {
                for &b in &ibounds {
                    let (lo, hi) = if a <= b { (a, b) } else { (b, a) };
                    let d = Uniform::new_inclusive(lo, hi);
                    for _ in 0..20 {
                        let r = d.sample(&mut rng);
                        assert!(lo <= r && r <= hi);
                        let r = rng.gen_range(lo..=hi);
                        assert!(lo <= r && r <= hi);
                        if lo < hi {
                            let r = rng.gen_range(lo..hi);
                            assert!(lo <= r && r < hi);
                            let r = Uniform::new(lo, hi).sample(&mut rng);
                            assert!(lo <= r && r < hi);
                        }
                    }
                }
            }
        }
    };
}

wide_membership!(wide_membership_d8x5, BUintD8<5>, BIntD8<5>);
wide_membership!(wide_membership_d16x3, BUintD16<3>, BIntD16<3>);
wide_membership!(wide_membership_d32x1, bnum::BUintD32<1>, bnum::BIntD32<1>);
wide_membership!(wide_membership_d32x4, bnum::BUintD32<4>, bnum::BIntD32<4>);
wide_membership!(wide_membership_d64x1, bnum::BUint<1>, bnum::BInt<1>);
wide_membership!(wide_membership_d64x3, bnum::BUint<3>, bnum::BInt<3>);

#[test]
fn empty_ranges_still_panic() {
    use std::panic::catch_unwind;
    fn quiet<F: FnOnce() + std::panic::UnwindSafe>(f: F) -> bool {
        catch_unwind(f).is_err()
    }
    let prev = std::panic::take_hook();
    std::panic::set_hook(Box::new(|_| {}));
    let a = BIntD8::<1>::from_i64(3);
    let b = BIntD8::<1>::from_i64(-3);
    let results = [
        quiet(move || {
            let _ = Uniform::new_inclusive(a, b);
        }),
        quiet(move || {
            let _ = Uniform::new(a, b);
        }),
        quiet(move || {
            let _ = Uniform::new(a, a);
        }),
        quiet(move || {
            let _ = Scripted::new(0, 1).gen_range(a..=b);
        }),
        quiet(move || {
            let _ = Scripted::new(0, 1).gen_range(a..b);
        }),
        quiet(move || {
            let _ = Scripted::new(0, 1).gen_range(a..a);
        }),
    ];
    std::panic::set_hook(prev);
    assert_eq!(results, [true; 6]);
}
