//! Self-check for the `uppermod_pairswap` rewrite of the range samplers in src/random.rs.
//!
//! Both samplers use remainder-with-rejection, but reject the LOWEST `2^BITS mod range` words
//! (the accepted words are the top of the word space). `Uniform::sample` then exchanges
//! neighbouring offsets (`2j <-> 2j+1`, a last unpaired offset stays);
//! `sample_single(_inclusive)` / `gen_range` exchange the two halves of the range.
//!
//! Run with: cargo test --offline -j 4 --features rand --test check_uppermod_pairswap -- --test-threads 4
#![cfg(feature = "rand")]

/// Model check: the word -> value map is exactly the one described in notes.md.
fn model<T: Small>(lo: i64, hi: i64) {
    let bits = 8 * T::BYTES as u32;
    let m = 1u64 << bits;
    let r = (hi - lo + 1) as u64;
    assert!(r < m);
    let floor = m % r;
    let half = r / 2;
    for w in 0..m {
        let x = w % r;
        let expect = if w >= floor {
            Some(lo + (if x ^ 1 < r { x ^ 1 } else { x }) as i64)
        } else {
            None
        };
        assert_eq!(first_draw::<T>(lo, hi, Entry::UniformInclusive, w), expect);
        let expect = if w >= floor {
            Some(lo + (if x < half { x + (r - half) } else { x - half }) as i64)
        } else {
            None
        };
        assert_eq!(first_draw::<T>(lo, hi, Entry::GenRangeInclusive, w), expect);
        if hi < T::HI {
            assert_eq!(first_draw::<T>(lo, hi, Entry::GenRangeHalfOpen, w), expect);
        }
    }
}

#[test]
fn model_uppermod_pairswap() {
    model::<BUintD8<2>>(100, 1099);
    model::<BUintD8<2>>(100, 1100);
    model::<BUintD8<2>>(7, 7);
    model::<BUintD8<2>>(0, 65534);
    model::<BUintD8<2>>(3, 3 + 4096 - 1);
    model::<BIntD8<2>>(-300, 299);
    model::<BIntD8<2>>(-32768, 32766);
    model::<BIntD8<1>>(-100, 27);
    model::<BUintD16<1>>(1, 40000);
}

// ---------------------------------------------------------------------------
// Shared exhaustive harness (identical in every check_<name>.rs of this batch).
// ---------------------------------------------------------------------------

use bnum::{BInt, BIntD16, BIntD32, BIntD8, BUint, BUintD16, BUintD32, BUintD8};
use rand::distributions::uniform::SampleUniform;
use rand::distributions::{Distribution, Uniform};
use rand::{Error, Rng, RngCore};

/// Scripted generator: the first word handed out is `first[..len]` (little-endian bytes of the
/// scripted word, and the request must be exactly one word wide); every later request is served
/// from a simple counter-based byte generator. `calls` counts words drawn.
struct Scripted {
    first: [u8; 8],
    len: usize,
    calls: u64,
    ctr: u64,
}

impl Scripted {
    fn new(word: u64, len: usize) -> Self {
        Scripted {
            first: word.to_le_bytes(),
            len,
            calls: 0,
            ctr: word.wrapping_mul(0x9E37_79B9_7F4A_7C15) ^ 0xD1B5_4A32_D192_ED03,
        }
    }
}

impl RngCore for Scripted {
    fn next_u32(&mut self) -> u32 {
        let mut b = [0u8; 4];
        self.fill_bytes(&mut b);
        u32::from_le_bytes(b)
    }
    fn next_u64(&mut self) -> u64 {
        let mut b = [0u8; 8];
        self.fill_bytes(&mut b);
        u64::from_le_bytes(b)
    }
    fn fill_bytes(&mut self, dest: &mut [u8]) {
        self.calls += 1;
        if self.calls == 1 {
            assert_eq!(dest.len(), self.len, "an attempt must draw exactly one word of the type's width");
            dest.copy_from_slice(&self.first[..self.len]);
        } else {
            assert_eq!(dest.len(), self.len, "every attempt must draw exactly one word of the type's width");
            for b in dest.iter_mut() {
                self.ctr = self
                    .ctr
                    .wrapping_mul(6364136223846793005)
                    .wrapping_add(1442695040888963407);
                *b = (self.ctr >> 56) as u8;
            }
        }
    }
    fn try_fill_bytes(&mut self, dest: &mut [u8]) -> Result<(), Error> {
        self.fill_bytes(dest);
        Ok(())
    }
}

/// Plain counter-based generator for the wide-type spot checks.
struct Lcg(u64);

impl RngCore for Lcg {
    fn next_u32(&mut self) -> u32 {
        let mut b = [0u8; 4];
        self.fill_bytes(&mut b);
        u32::from_le_bytes(b)
    }
    fn next_u64(&mut self) -> u64 {
        let mut b = [0u8; 8];
        self.fill_bytes(&mut b);
        u64::from_le_bytes(b)
    }
    fn fill_bytes(&mut self, dest: &mut [u8]) {
        for b in dest.iter_mut() {
            self.0 = self
                .0
                .wrapping_mul(6364136223846793005)
                .wrapping_add(1442695040888963407);
            *b = (self.0 >> 56) as u8;
        }
    }
    fn try_fill_bytes(&mut self, dest: &mut [u8]) -> Result<(), Error> {
        self.fill_bytes(dest);
        Ok(())
    }
}

/// Small integer types (at most 56 bits) viewed through `i64`.
trait Small: Copy + PartialOrd + SampleUniform + core::fmt::Debug {
    const BYTES: usize;
    const LO: i64;
    const HI: i64;
    fn mk(x: i64) -> Self;
    fn un(self) -> i64;
}

impl<const N: usize> Small for BUintD8<N> {
    const BYTES: usize = N;
    const LO: i64 = 0;
    const HI: i64 = (1i64 << (8 * N)) - 1;
    fn mk(x: i64) -> Self {
        assert!(x >= Self::LO && x <= Self::HI);
        let b = (x as u64).to_le_bytes();
        let mut d = [0u8; N];
        d.copy_from_slice(&b[..N]);
        BUintD8::from_digits(d)
    }
    fn un(self) -> i64 {
        let mut b = [0u8; 8];
        b[..N].copy_from_slice(self.digits());
        u64::from_le_bytes(b) as i64
    }
}

impl<const N: usize> Small for BIntD8<N> {
    const BYTES: usize = N;
    const LO: i64 = -(1i64 << (8 * N - 1));
    const HI: i64 = (1i64 << (8 * N - 1)) - 1;
    fn mk(x: i64) -> Self {
        assert!(x >= Self::LO && x <= Self::HI);
        let b = (x as u64).to_le_bytes();
        let mut d = [0u8; N];
        d.copy_from_slice(&b[..N]);
        BIntD8::from_bits(BUintD8::from_digits(d))
    }
    fn un(self) -> i64 {
        let mut b = [0u8; 8];
        b[..N].copy_from_slice(self.to_bits().digits());
        let u = u64::from_le_bytes(b);
        let sh = 64 - 8 * N as u32;
        ((u << sh) as i64) >> sh
    }
}

impl Small for BUintD16<1> {
    const BYTES: usize = 2;
    const LO: i64 = 0;
    const HI: i64 = 65535;
    fn mk(x: i64) -> Self {
        assert!(x >= Self::LO && x <= Self::HI);
        BUintD16::from_digits([x as u16])
    }
    fn un(self) -> i64 {
        self.digits()[0] as i64
    }
}

impl Small for BIntD16<1> {
    const BYTES: usize = 2;
    const LO: i64 = -32768;
    const HI: i64 = 32767;
    fn mk(x: i64) -> Self {
        assert!(x >= Self::LO && x <= Self::HI);
        BIntD16::from_bits(BUintD16::from_digits([x as i16 as u16]))
    }
    fn un(self) -> i64 {
        self.to_bits().digits()[0] as i16 as i64
    }
}

#[derive(Clone, Copy, Debug, PartialEq)]
enum Entry {
    UniformInclusive,
    UniformHalfOpen,
    GenRangeInclusive,
    GenRangeHalfOpen,
}

const ENTRIES: [Entry; 4] = [
    Entry::UniformInclusive,
    Entry::UniformHalfOpen,
    Entry::GenRangeInclusive,
    Entry::GenRangeHalfOpen,
];

/// Enumerates every word of the type's width as the first RNG word for the closed range
/// `[lo, hi]` through the given entry point and asserts:
///   * every returned value lies in `[lo, hi]`,
///   * every value of the range has the same non-zero number of accepted first words,
///   * at least a quarter of all first words are accepted.
/// Half-open entry points are skipped when `hi + 1` is not representable.
/// Returns the common preimage count (0 when skipped).
fn check_range<T: Small>(lo: i64, hi: i64, entry: Entry, counts: &mut Vec<u32>) -> u32 {
    assert!(T::LO <= lo && lo <= hi && hi <= T::HI);
    let half_open = matches!(entry, Entry::UniformHalfOpen | Entry::GenRangeHalfOpen);
    if half_open && hi == T::HI {
        return 0;
    }
    let r = (hi - lo + 1) as usize;
    counts.clear();
    counts.resize(r, 0);
    let words: u64 = 1u64 << (8 * T::BYTES);
    let (tlo, thi) = (T::mk(lo), T::mk(hi));
    let thi_excl = if half_open { Some(T::mk(hi + 1)) } else { None };
    let uni = match entry {
        Entry::UniformInclusive => Some(Uniform::new_inclusive(tlo, thi)),
        Entry::UniformHalfOpen => Some(Uniform::new(tlo, thi_excl.unwrap())),
        _ => None,
    };
    let mut accepted: u64 = 0;
    for w in 0..words {
        let mut rng = Scripted::new(w, T::BYTES);
        let v: T = match entry {
            Entry::UniformInclusive | Entry::UniformHalfOpen => uni.as_ref().unwrap().sample(&mut rng),
            Entry::GenRangeInclusive => rng.gen_range(tlo..=thi),
            Entry::GenRangeHalfOpen => rng.gen_range(tlo..thi_excl.unwrap()),
        };
        assert!(rng.calls >= 1, "{:?} [{}, {}]: no word drawn", entry, lo, hi);
        assert!(
            v >= tlo && v <= thi,
            "{:?} [{}, {}] word {:#x}: result {:?} out of range",
            entry, lo, hi, w, v
        );
        let x = v.un();
        assert!(x >= lo && x <= hi);
        if rng.calls == 1 {
            counts[(x - lo) as usize] += 1;
            accepted += 1;
        }
    }
    let c0 = counts[0];
    assert!(c0 > 0, "{:?} [{}, {}]: value {} has no accepted word", entry, lo, hi, lo);
    for (i, &c) in counts.iter().enumerate() {
        assert_eq!(
            c, c0,
            "{:?} [{}, {}]: value {} has {} accepted words, value {} has {}",
            entry, lo, hi, lo + i as i64, c, lo, c0
        );
    }
    assert_eq!(accepted, c0 as u64 * r as u64);
    assert!(
        accepted * 4 >= words,
        "{:?} [{}, {}]: only {} of {} first words accepted",
        entry, lo, hi, accepted, words
    );
    c0
}

/// Result of one draw with scripted first word `w`: `Some(value)` if the first word was accepted,
/// `None` if it was rejected (the draw then continues on the counter-based stream).
#[allow(dead_code)]
fn first_draw<T: Small>(lo: i64, hi: i64, entry: Entry, w: u64) -> Option<i64> {
    let (tlo, thi) = (T::mk(lo), T::mk(hi));
    let mut rng = Scripted::new(w, T::BYTES);
    let v: T = match entry {
        Entry::UniformInclusive => Uniform::new_inclusive(tlo, thi).sample(&mut rng),
        Entry::UniformHalfOpen => Uniform::new(tlo, T::mk(hi + 1)).sample(&mut rng),
        Entry::GenRangeInclusive => rng.gen_range(tlo..=thi),
        Entry::GenRangeHalfOpen => rng.gen_range(tlo..T::mk(hi + 1)),
    };
    if rng.calls == 1 {
        Some(v.un())
    } else {
        None
    }
}

fn all_pairs<T: Small>() {
    let mut counts = Vec::new();
    let mut checked = 0u64;
    for lo in T::LO..=T::HI {
        for hi in lo..=T::HI {
            for e in ENTRIES {
                if check_range::<T>(lo, hi, e, &mut counts) > 0 {
                    checked += 1;
                }
            }
        }
    }
    // 256 * 257 / 2 closed ranges, of which 256 (those ending at MAX) have no half-open form
    assert_eq!(checked, 4 * 32896 - 2 * 256);
}

#[test]
fn exhaustive_8bit_unsigned_all_pairs() {
    all_pairs::<BUintD8<1>>();
}

#[test]
fn exhaustive_8bit_signed_all_pairs() {
    all_pairs::<BIntD8<1>>();
}

/// Range sizes exercised for 16-bit types: 1, 2, 3, powers of two and neighbours, sizes just
/// around 2/3 and 3/4 of a power of two, the top sizes, and the full range.
const SIZES_16: [i64; 36] = [
    1, 2, 3, 4, 5, 6, 7, 10, 15, 16, 17, 85, 86, 100, 127, 128, 129, 170, 171, 255, 256, 257, 1000, 4095, 4096, 4097,
    10922, 10923, 21845, 21846, 32767, 32768, 32769, 43691, 65535, 65536,
];

fn sixteen_bit<T: Small>() {
    let mut counts = Vec::new();
    for (i, &r) in SIZES_16.iter().enumerate() {
        // three placements: at MIN, ending at MAX, and somewhere in between (spanning zero for
        // signed types whenever the size allows it)
        let span = T::HI - T::LO + 1;
        let slack = span - r;
        let offs = [0, slack, (slack / 2 + (i as i64 * 37) % (slack / 2 + 1)).min(slack)];
        for (j, &o) in offs.iter().enumerate() {
            if j > 0 && o == offs[j - 1] {
                continue;
            }
            let lo = T::LO + o;
            let hi = lo + r - 1;
            for e in ENTRIES {
                check_range::<T>(lo, hi, e, &mut counts);
            }
        }
    }
}

#[test]
fn exhaustive_16bit_unsigned_two_digits() {
    sixteen_bit::<BUintD8<2>>();
}

#[test]
fn exhaustive_16bit_signed_two_digits() {
    sixteen_bit::<BIntD8<2>>();
}

#[test]
fn exhaustive_16bit_unsigned_one_digit() {
    sixteen_bit::<BUintD16<1>>();
}

#[test]
fn exhaustive_16bit_signed_one_digit() {
    sixteen_bit::<BIntD16<1>>();
}

#[test]
fn exhaustive_24bit_range_a() {
    // size 1_000_003 (prime, not near a power of two), away from zero
    let mut counts = Vec::new();
    for e in ENTRIES {
        let c = check_range::<BUintD8<3>>(70_001, 70_001 + 1_000_003 - 1, e, &mut counts);
        assert!(c >= 4);
    }
}

#[test]
fn exhaustive_24bit_range_b() {
    // size 2^23 + 5: more than half of the word space, so exactly one accepted word per value
    let mut counts = Vec::new();
    for e in ENTRIES {
        let c = check_range::<BUintD8<3>>(8_388_000, 8_388_000 + 8_388_613 - 1, e, &mut counts);
        assert_eq!(c, 1);
    }
}

/// In-range / no-panic spot checks on wide types, all four entry points.
macro_rules! spot {
    ($name: ident, $T: ty, $U: ty, $signed: expr) => {
        #[test]
        fn $name() {
            type T = $T;
            let bits = <$U>::BITS;
            let mut rng = Lcg(0x1234_5678_9ABC_DEF0 ^ bits as u64);
            let mut ranges: Vec<(T, T)> = Vec::new();
            let (min, max, one, zero) = (T::MIN, T::MAX, T::ONE, T::ZERO);
            // full range, and the ranges one and two short of it
            ranges.push((min, max));
            ranges.push((min + one, max));
            ranges.push((min, max - one));
            ranges.push((min + one, max - one));
            // singletons
            ranges.push((min, min));
            ranges.push((max, max));
            ranges.push((zero, zero));
            // ranges starting at zero (or MIN) of size 2^k - 1, 2^k, 2^k + 1 for many k
            let mut k = 1u32;
            while k < bits - 1 {
                let p = one << k;
                for hi in [p - one - one, p - one, p] {
                    ranges.push((zero, hi));
                    ranges.push((min, min + hi));
                    ranges.push((max - hi, max));
                }
                k += if k < 10 { 1 } else { 7 };
            }
            if $signed {
                // signed ranges spanning zero, including ones wider than MAX
                ranges.push((zero - one, one));
                ranges.push((zero - one, zero));
                ranges.push((min, zero));
                ranges.push((min, one));
                ranges.push((zero - one, max));
                ranges.push((min / T::THREE, max));
                ranges.push((min, max / T::THREE));
                ranges.push((min / T::TWO - one, max / T::TWO + one));
                ranges.push((min / T::TWO, max / T::TWO));
                ranges.push((min / T::THREE * T::TWO, max / T::THREE * T::TWO));
                ranges.push((zero - T::TEN, T::NINE));
            } else {
                ranges.push((max / T::THREE, max / T::THREE * T::TWO));
                ranges.push((max / T::TWO, max));
                ranges.push((max / T::TWO + one, max));
                ranges.push((one, max / T::TWO + T::TWO));
            }
            // random ranges
            for _ in 0..40 {
                let a: T = rng.gen();
                let b: T = rng.gen();
                if a <= b {
                    ranges.push((a, b));
                } else {
                    ranges.push((b, a));
                }
            }
            for &(lo, hi) in &ranges {
                assert!(lo <= hi);
                let u = Uniform::new_inclusive(lo, hi);
                for _ in 0..24 {
                    let v = u.sample(&mut rng);
                    assert!(lo <= v && v <= hi, "Uniform inclusive {:?}..={:?} gave {:?}", lo, hi, v);
                    let v = rng.gen_range(lo..=hi);
                    assert!(lo <= v && v <= hi, "gen_range {:?}..={:?} gave {:?}", lo, hi, v);
                }
                if lo < hi {
                    // half-open [lo, hi)
                    let u = Uniform::new(lo, hi);
                    for _ in 0..24 {
                        let v = u.sample(&mut rng);
                        assert!(lo <= v && v < hi, "Uniform {:?}..{:?} gave {:?}", lo, hi, v);
                        let v = rng.gen_range(lo..hi);
                        assert!(lo <= v && v < hi, "gen_range {:?}..{:?} gave {:?}", lo, hi, v);
                    }
                }
            }
            // the full range must be able to produce values with the top bit set and clear
            let u = Uniform::new_inclusive(min, max);
            let (mut top_set, mut top_clear) = (false, false);
            for _ in 0..64 {
                let v = u.sample(&mut rng);
                if v >= zero && (!$signed && v > max / T::TWO) || ($signed && v < zero) {
                    top_set = true;
                } else {
                    top_clear = true;
                }
            }
            assert!(top_set && top_clear);
        }
    };
}

spot!(spot_u40_d8, BUintD8<5>, BUintD8<5>, false);
spot!(spot_i40_d8, BIntD8<5>, BUintD8<5>, true);
spot!(spot_u72_d8, BUintD8<9>, BUintD8<9>, false);
spot!(spot_i80_d16, BIntD16<5>, BUintD16<5>, true);
spot!(spot_u112_d16, BUintD16<7>, BUintD16<7>, false);
spot!(spot_u96_d32, BUintD32<3>, BUintD32<3>, false);
spot!(spot_i160_d32, BIntD32<5>, BUintD32<5>, true);
spot!(spot_u128_d64, BUint<2>, BUint<2>, false);
spot!(spot_i128_d64, BInt<2>, BUint<2>, true);
spot!(spot_i192_d64, BInt<3>, BUint<3>, true);
spot!(spot_u320_d64, BUint<5>, BUint<5>, false);
spot!(spot_i320_d64, BInt<5>, BUint<5>, true);
spot!(spot_i320_d32, BIntD32<10>, BUintD32<10>, true);
