//! Self-check (shipped with rewrite `fill_bytes_batched`) for the STANDARD / FILL half of property C20.
//!
//! A scripted `RngCore` whose four methods all draw from ONE little-endian byte stream
//! (a `Vec<u8>` with a cursor) is used to assert, for several instantiations and slice lengths:
//!   * the little-endian bytes of every generated integer are exactly the next `size_of::<T>()` bytes of the stream,
//!   * the stream position after `gen` is advanced by exactly `size_of::<T>()`,
//!   * `try_fill_slice` / `Fill::try_fill` equal element-wise `gen` (values and stream position),
//!   * signed values are the two's-complement reinterpretation of the unsigned ones,
//!   * an `Err` from `try_fill_bytes` is returned (never `Ok` after a failed request), and
//!     `Standard` panics when the RNG fails.
//!
//! The file is independent of the rewrite it ships with: it passes on the pristine code too.
#![cfg(feature = "rand")]

use bnum::random::{self, Slice};
use bnum::{BInt, BIntD8, BUint, BUintD16, BUintD32, BUintD8};
use core::num::NonZeroU32;
use rand::{Error, Fill, Rng, RngCore};
use std::panic::{catch_unwind, AssertUnwindSafe};

const FAULT_CODE: u32 = Error::CUSTOM_START + 20;

#[derive(Clone, Copy, Debug, PartialEq, Eq)]
enum Req {
    U32,
    U64,
    Fill(usize),
    TryFill(usize),
}

/// All four methods draw from `data[pos..]`. Request number `fail_at` (0-based, counting every call of
/// every method) fails: `try_fill_bytes` delivers (and consumes) `min(partial, len)` bytes and returns `Err`;
/// the infallible methods panic. The fault is transient: later requests succeed again, so code that swallowed
/// the error or retried would be observed returning `Ok`.
#[derive(Clone)]
struct Script {
    data: Vec<u8>,
    pos: usize,
    log: Vec<Req>,
    fail_at: Option<usize>,
    partial: usize,
    fired: bool,
}

impl Script {
    fn new(data: Vec<u8>) -> Self {
        Self { data, pos: 0, log: Vec::new(), fail_at: None, partial: 0, fired: false }
    }
    fn failing(data: Vec<u8>, fail_at: usize, partial: usize) -> Self {
        Self { fail_at: Some(fail_at), partial, ..Self::new(data) }
    }
    fn take(&mut self, n: usize) -> &[u8] {
        assert!(self.pos + n <= self.data.len(), "scripted stream exhausted: consumed more than expected");
        let s = &self.data[self.pos..self.pos + n];
        self.pos += n;
        s
    }
    fn faulty_now(&mut self, r: Req) -> bool {
        let idx = self.log.len();
        self.log.push(r);
        if self.fail_at == Some(idx) {
            self.fired = true;
            true
        } else {
            false
        }
    }
}

impl RngCore for Script {
    fn next_u32(&mut self) -> u32 {
        if self.faulty_now(Req::U32) {
            panic!("scripted rng failure (next_u32)");
        }
        let mut b = [0u8; 4];
        b.copy_from_slice(self.take(4));
        u32::from_le_bytes(b)
    }
    fn next_u64(&mut self) -> u64 {
        if self.faulty_now(Req::U64) {
            panic!("scripted rng failure (next_u64)");
        }
        let mut b = [0u8; 8];
        b.copy_from_slice(self.take(8));
        u64::from_le_bytes(b)
    }
    fn fill_bytes(&mut self, dest: &mut [u8]) {
        if self.faulty_now(Req::Fill(dest.len())) {
            panic!("scripted rng failure (fill_bytes)");
        }
        let n = dest.len();
        dest.copy_from_slice(self.take(n));
    }
    fn try_fill_bytes(&mut self, dest: &mut [u8]) -> Result<(), Error> {
        if self.faulty_now(Req::TryFill(dest.len())) {
            let n = self.partial.min(dest.len());
            let src = self.take(n).to_vec();
            dest[..n].copy_from_slice(&src);
            return Err(Error::from(NonZeroU32::new(FAULT_CODE).unwrap()));
        }
        let n = dest.len();
        dest.copy_from_slice(self.take(n));
        Ok(())
    }
}

fn stream(len: usize, seed: u64) -> Vec<u8> {
    // splitmix-style generator; every byte position gets a well-mixed value, with a few
    // 0x00 / 0xff runs spliced in so that sign bits and all-ones digits occur.
    let mut s = seed.wrapping_mul(0x9e37_79b9_7f4a_7c15) ^ 0xdead_beef;
    let mut v = Vec::with_capacity(len);
    while v.len() < len {
        s = s.wrapping_add(0x9e37_79b9_7f4a_7c15);
        let mut z = s;
        z = (z ^ (z >> 30)).wrapping_mul(0xbf58_476d_1ce4_e5b9);
        z = (z ^ (z >> 27)).wrapping_mul(0x94d0_49bb_1331_11eb);
        z ^= z >> 31;
        v.extend_from_slice(&z.to_le_bytes());
    }
    v.truncate(len);
    for (i, b) in v.iter_mut().enumerate() {
        match (i / 11) % 9 {
            3 => *b = 0xff,
            6 => *b = 0x00,
            _ => {}
        }
    }
    v
}

trait Int: Copy + PartialEq + core::fmt::Debug {
    const SIZE: usize;
    const ZERO_: Self;
    fn lebytes(&self) -> Vec<u8>;
}

macro_rules! impl_int {
    ($U: ident, $I: ident) => {
        impl<const N: usize> Int for $U<N> {
            const SIZE: usize = core::mem::size_of::<Self>();
            const ZERO_: Self = Self::ZERO;
            fn lebytes(&self) -> Vec<u8> {
                self.digits().iter().flat_map(|d| d.to_le_bytes()).collect()
            }
        }
        impl<const N: usize> Int for $I<N> {
            const SIZE: usize = core::mem::size_of::<Self>();
            const ZERO_: Self = Self::ZERO;
            fn lebytes(&self) -> Vec<u8> {
                self.to_bits().lebytes()
            }
        }
    };
}
impl_int!(BUint, BInt);
impl_int!(BUintD32, BIntD32);
impl_int!(BUintD16, BIntD16);
impl_int!(BUintD8, BIntD8);
use bnum::{BIntD16, BIntD32};

const LENS: [usize; 5] = [0, 1, 2, 7, 300];

fn as_wrapper<T>(s: &mut [T]) -> &mut Slice<T> {
    // `Slice<T>` is `#[repr(transparent)]` over `[T]`; this is the same cast `try_fill_slice` performs.
    unsafe { &mut *(s as *mut [T] as *mut Slice<T>) }
}

fn check_gen<T: Int>(bits: u32)
where
    rand::distributions::Standard: rand::distributions::Distribution<T>,
{
    assert_eq!(T::SIZE * 8, bits as usize, "size_of");
    for lead in [0usize, 1, 3, 8] {
        let data = stream(lead + 6 * T::SIZE + 16, 7 + lead as u64);
        let mut rng = Script::new(data.clone());
        if lead > 0 {
            let mut skip = vec![0u8; lead];
            rng.fill_bytes(&mut skip); // misalign the stream
        }
        for _ in 0..6 {
            let before = rng.pos;
            let v: T = rng.gen();
            assert_eq!(rng.pos, before + T::SIZE, "gen must consume exactly size_of bytes");
            assert_eq!(v.lebytes(), &data[before..before + T::SIZE], "gen bytes != stream bytes");
        }
        assert!(!rng.fired);
    }
    // extreme patterns: all ones / all zeros / only top bit set
    for pat in 0..3 {
        let mut data = vec![if pat == 0 { 0xff } else { 0x00 }; T::SIZE];
        if pat == 2 {
            data[T::SIZE - 1] = 0x80;
        }
        let mut rng = Script::new(data.clone());
        let v: T = rng.gen();
        assert_eq!(v.lebytes(), data);
        assert_eq!(rng.pos, T::SIZE);
    }
}

fn check_gen_panics<T: Int>()
where
    rand::distributions::Standard: rand::distributions::Distribution<T>,
{
    let data = stream(T::SIZE + 8, 99);
    let mut clean = Script::new(data.clone());
    let _: T = clean.gen();
    let nreq = clean.log.len();
    assert!(nreq >= 1);
    for k in 0..nreq {
        for partial in [0usize, 1, usize::MAX] {
            let mut rng = Script::failing(data.clone(), k, partial);
            let r = catch_unwind(AssertUnwindSafe(|| {
                let v: T = rng.gen();
                v
            }));
            assert!(rng.fired);
            assert!(r.is_err(), "Standard must panic when request {} of {:?} fails", k, clean.log);
        }
    }
}

fn check_signed<U: Int, I: Int>(to_bits: impl Fn(I) -> U)
where
    rand::distributions::Standard: rand::distributions::Distribution<U> + rand::distributions::Distribution<I>,
{
    let data = stream(5 * U::SIZE, 1234);
    let mut a = Script::new(data.clone());
    let mut b = Script::new(data);
    for _ in 0..5 {
        let u: U = a.gen();
        let i: I = b.gen();
        assert_eq!(to_bits(i), u);
        assert_eq!(a.pos, b.pos);
    }
}

fn check_fill<T: Int>()
where
    rand::distributions::Standard: rand::distributions::Distribution<T>,
    Slice<T>: Fill,
{
    for &len in &LENS {
        for lead in [0usize, 5] {
            for via_trait in [false, true] {
                let total = lead + len * T::SIZE;
                let data = stream(total + T::SIZE, len as u64 * 31 + lead as u64);
                let mut rng = Script::new(data.clone());
                let mut rng2 = Script::new(data.clone());
                if lead > 0 {
                    let mut skip = vec![0u8; lead];
                    rng.fill_bytes(&mut skip);
                    rng2.fill_bytes(&mut skip);
                }
                let mut v = vec![T::ZERO_; len];
                if via_trait {
                    as_wrapper(&mut v[..]).try_fill(&mut rng).unwrap();
                } else {
                    random::try_fill_slice(&mut v[..], &mut rng).unwrap();
                }
                assert_eq!(rng.pos, total, "slice fill must consume exactly len * size_of bytes (len {})", len);
                let bytes: Vec<u8> = v.iter().flat_map(|x| x.lebytes()).collect();
                assert_eq!(bytes, &data[lead..total], "slice bytes != stream bytes (len {})", len);

                let mut w = vec![T::ZERO_; len];
                for e in w.iter_mut() {
                    *e = rng2.gen();
                }
                assert_eq!(v, w, "slice fill != element-wise gen");
                assert_eq!(rng.pos, rng2.pos, "stream position differs from element-wise gen");

                // what follows in the stream is untouched: the next draw continues right after
                let next: T = rng.gen();
                assert_eq!(next.lebytes(), &data[total..total + T::SIZE]);
            }
        }
    }
}

fn check_fill_errors<T: Int>()
where
    Slice<T>: Fill,
{
    for &len in &LENS {
        let data = stream(len * T::SIZE + 8, 4242 + len as u64);
        let mut clean = Script::new(data.clone());
        let mut v = vec![T::ZERO_; len];
        random::try_fill_slice(&mut v[..], &mut clean).unwrap();
        let nreq = clean.log.len();
        // which requests to break: all of them if few, else both ends and a spread through the middle
        let ks: Vec<usize> = if nreq <= 48 {
            (0..nreq.max(1)).collect()
        } else {
            let mut ks: Vec<usize> = (0..12).chain(nreq - 12..nreq).collect();
            ks.extend((12..nreq - 12).step_by((nreq / 16).max(1)));
            ks
        };
        for k in ks {
            for partial in [0usize, 1, 3, usize::MAX] {
                for via_trait in [false, true] {
                    let mut rng = Script::failing(data.clone(), k, partial);
                    let mut v = vec![T::ZERO_; len];
                    // an infallible method hitting the fault panics inside the scripted RNG; `try_fill` must use
                    // the fallible method so that it can report the error - treat a panic as a failed check.
                    let res = if via_trait {
                        as_wrapper(&mut v[..]).try_fill(&mut rng)
                    } else {
                        random::try_fill_slice(&mut v[..], &mut rng)
                    };
                    if rng.fired {
                        let e = res.expect_err("RNG request failed but the fill returned Ok");
                        assert_eq!(e.code().map(|c| c.get()), Some(FAULT_CODE), "a different error was returned");
                    } else {
                        // no request was issued at all (empty slice): nothing can fail
                        assert!(k >= nreq);
                        res.unwrap();
                        assert_eq!(rng.pos, len * T::SIZE);
                    }
                }
            }
        }
    }
}

macro_rules! suite {
    ($($name: ident: $U: ty, $I: ty, $bits: expr;)*) => {
        $(
            mod $name {
                use super::*;
                #[test] fn gen_unsigned() { check_gen::<$U>($bits); }
                #[test] fn gen_signed() { check_gen::<$I>($bits); }
                #[test] fn gen_signed_is_reinterpretation() { check_signed::<$U, $I>(|i| i.to_bits()); }
                #[test] fn gen_panics_on_failure() { check_gen_panics::<$U>(); check_gen_panics::<$I>(); }
                #[test] fn fill_unsigned() { check_fill::<$U>(); }
                #[test] fn fill_signed() { check_fill::<$I>(); }
                #[test] fn fill_errors_propagate() { check_fill_errors::<$U>(); check_fill_errors::<$I>(); }
            }
        )*
    };
}

suite! {
    d8x1:  BUintD8<1>,  BIntD8<1>,  8;
    d8x3:  BUintD8<3>,  BIntD8<3>,  24;
    d8x5:  BUintD8<5>,  BIntD8<5>,  40;
    d8x13: BUintD8<13>, BIntD8<13>, 104;
    d16x3: BUintD16<3>, BIntD16<3>, 48;
    d32x3: BUintD32<3>, BIntD32<3>, 96;
    d64x1: BUint<1>,    BInt<1>,    64;
    d64x2: BUint<2>,    BInt<2>,    128;
    d64x3: BUint<3>,    BInt<3>,    192;
    d64x5: BUint<5>,    BInt<5>,    320;
    d8x1024: BUintD8<1024>, BIntD8<1024>, 8192;
    d64x128: BUint<128>, BInt<128>, 8192;
}

/// The range samplers draw their words through `Standard`; a quick sanity check that a rewrite of
/// `Standard` leaves them in range and reading whole words from the stream.
#[test]
fn gen_range_still_in_range_and_word_aligned() {
    type U = BUintD8<3>;
    type I = BIntD8<3>;
    let data = stream(3 * 4000, 5);
    let mut rng = Script::new(data);
    let (lo, hi) = (U::from(1000u16), U::from(70000u32));
    let (slo, shi) = (I::from(-5000i16), I::from(5000i16));
    for _ in 0..200 {
        let x = rng.gen_range(lo..hi);
        assert!(lo <= x && x < hi);
        assert_eq!(rng.pos % 3, 0);
        let y = rng.gen_range(slo..=shi);
        assert!(slo <= y && y <= shi);
        assert_eq!(rng.pos % 3, 0);
    }
}
