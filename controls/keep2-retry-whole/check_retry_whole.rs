//! Self-check for one behaviour-preserving rewrite of `src/random.rs` (property C20, byte transfer
//! part).  A scripted byte-stream RNG stands in for every `RngCore`: all four methods draw from one
//! cursor over one fixed byte stream, fallible requests can be made to fail on chosen request
//! numbers with a chosen error code (optionally after scribbling over part of the destination and
//! optionally losing stream bytes), and the infallible methods panic at a scheduled fault.
#![cfg(feature = "rand")]
#![allow(dead_code)]

use std::collections::BTreeMap;
use std::num::NonZeroU32;
use std::panic::{catch_unwind, AssertUnwindSafe};
use std::sync::OnceLock;

use bnum::random::{self, Slice};
use bnum::{BInt, BIntD8, BUint, BUintD16, BUintD32, BUintD8};
use rand::distributions::{Distribution, Standard};
use rand::{Error, Fill, Rng, RngCore};

// ------------------------------------------------------------------------------------------------
// What this particular rewrite promises on top of the common contract.
// ------------------------------------------------------------------------------------------------

/// Name of the rewrite under test.
const NAME: &str = "retry_whole";
/// Number of times a slice fill re-issues one request after EINTR/EAGAIN (0: no retry path).
const SLICE_RETRIES: usize = 8;
/// Number of times `Standard` re-issues its request after EINTR/EAGAIN (0: no retry path).
const STD_RETRIES: usize = 8;
/// State of the destination slice after `Err`.
const ON_ERR: OnErr = OnErr::Unspecified;
/// How a fault-free slice fill is cut into requests.
const REQUESTS: Requests = Requests::Single;
/// Whether the panic message of `Standard` contains the decimal error code.
const PANIC_HAS_CODE: bool = true;

#[derive(Clone, Copy, PartialEq, Debug)]
enum OnErr {
    Unspecified,
    Zeroed,
    Untouched,
}

#[derive(Clone, Copy, PartialEq, Debug)]
enum Requests {
    /// One request covering the whole slice.
    Single,
    /// Groups of whole elements: `max(1, 1024 / size)` elements, rounded down to a multiple of
    /// eight elements when that leaves at least eight.
    ElementGroups,
}

// ------------------------------------------------------------------------------------------------
// Error codes.
// ------------------------------------------------------------------------------------------------

const EINTR: u32 = 4;
const EAGAIN: u32 = 11;
const EIO: u32 = 5;
/// Custom error code: `raw_os_error()` is `None`.
const CUSTOM: u32 = Error::CUSTOM_START + 11;
/// Internal error code whose low bits look like EINTR: `raw_os_error()` is `None`, so not transient.
const INTERNAL: u32 = Error::INTERNAL_START + 4;

const HARD_CODES: [u32; 3] = [EIO, CUSTOM, INTERNAL];

fn err(code: u32) -> Error {
    Error::from(NonZeroU32::new(code).unwrap())
}

fn code_of(e: &Error) -> u32 {
    e.code().expect("scripted errors always carry a code").get()
}

// ------------------------------------------------------------------------------------------------
// The scripted RNG.
// ------------------------------------------------------------------------------------------------

const STREAM_LEN: usize = 12 << 20;

fn stream() -> &'static [u8] {
    static STREAM: OnceLock<Vec<u8>> = OnceLock::new();
    STREAM.get_or_init(|| {
        let mut s = 0x9E37_79B9_7F4A_7C15u64;
        let mut v = Vec::with_capacity(STREAM_LEN + 8);
        while v.len() < STREAM_LEN {
            s ^= s << 13;
            s ^= s >> 7;
            s ^= s << 17;
            v.extend_from_slice(&s.wrapping_mul(0x2545_F491_4F6C_DD1D).to_le_bytes());
        }
        v
    })
}

#[derive(Clone, Copy, Debug, PartialEq)]
enum Scribble {
    /// The failing request leaves the destination alone.
    None,
    /// The failing request overwrites the first half (rounded up) of the destination.
    Half,
    /// The failing request overwrites the whole destination.
    Full,
}

#[derive(Clone, Copy, Debug)]
struct Fault {
    code: u32,
    scribble: Scribble,
    /// `false`: the scribbled bytes are the complement of what the stream would have delivered
    /// and the cursor does not move.  `true`: the scribbled bytes are real stream bytes and the
    /// cursor moves past them, i.e. a partial delivery that is then reported as failed (those
    /// bytes are lost).
    consume: bool,
}

const MODES: [(Scribble, bool); 5] = [
    (Scribble::None, false),
    (Scribble::Half, false),
    (Scribble::Full, false),
    (Scribble::Half, true),
    (Scribble::Full, true),
];

struct Script {
    data: &'static [u8],
    start: usize,
    pos: usize,
    /// Number of requests seen so far (all four `RngCore` methods count).
    req: usize,
    faults: BTreeMap<usize, Fault>,
    /// Bytes handed out by SUCCESSFUL requests, in order.
    kept: Vec<u8>,
    /// Size of every request, in order.
    sizes: Vec<usize>,
}

impl Script {
    fn new(start: usize) -> Self {
        Script {
            data: stream(),
            start,
            pos: start,
            req: 0,
            faults: BTreeMap::new(),
            kept: Vec::new(),
            sizes: Vec::new(),
        }
    }

    fn with_faults(start: usize, faults: impl IntoIterator<Item = (usize, Fault)>) -> Self {
        let mut s = Self::new(start);
        s.faults.extend(faults);
        s
    }

    /// Stream bytes `a..b`, relative to the start of this script.
    fn bytes(&self, a: usize, b: usize) -> &'static [u8] {
        &self.data[self.start + a..self.start + b]
    }

    fn position(&self) -> usize {
        self.pos - self.start
    }

    fn take(&mut self, dest: &mut [u8]) -> Result<(), Error> {
        let k = self.req;
        self.req += 1;
        self.sizes.push(dest.len());
        let src = &self.data[self.pos..self.pos + dest.len()];
        if let Some(f) = self.faults.get(&k).copied() {
            let n = match f.scribble {
                Scribble::None => 0,
                Scribble::Half => (dest.len() + 1) / 2,
                Scribble::Full => dest.len(),
            };
            if f.consume {
                dest[..n].copy_from_slice(&src[..n]);
                self.pos += n;
            } else {
                for (d, s) in dest[..n].iter_mut().zip(src) {
                    *d = !*s;
                }
            }
            return Err(err(f.code));
        }
        dest.copy_from_slice(src);
        self.pos += dest.len();
        self.kept.extend_from_slice(dest);
        Ok(())
    }
}

impl RngCore for Script {
    fn next_u32(&mut self) -> u32 {
        let mut b = [0; 4];
        self.take(&mut b).expect("scheduled fault hit an infallible method");
        u32::from_le_bytes(b)
    }

    fn next_u64(&mut self) -> u64 {
        let mut b = [0; 8];
        self.take(&mut b).expect("scheduled fault hit an infallible method");
        u64::from_le_bytes(b)
    }

    fn fill_bytes(&mut self, dest: &mut [u8]) {
        self.take(dest).expect("scheduled fault hit an infallible method");
    }

    fn try_fill_bytes(&mut self, dest: &mut [u8]) -> Result<(), Error> {
        self.take(dest)
    }
}

// ------------------------------------------------------------------------------------------------
// The integer types under test.
// ------------------------------------------------------------------------------------------------

fn wrap<T>(v: &mut [T]) -> &mut Slice<T> {
    // `Slice<T>` is a public `repr(transparent)` wrapper around `[T]`.
    unsafe { &mut *(v as *mut [T] as *mut Slice<T>) }
}

trait Int: Copy + PartialEq + std::fmt::Debug + 'static {
    const SIZE: usize;
    /// The little-endian byte image: every digit, least significant first, each in LE order.
    fn bytes(&self) -> Vec<u8>;
    fn zero() -> Self;
    fn sentinel() -> Self;
    fn gen(rng: &mut Script) -> Self;
    fn gen_dyn(rng: &mut dyn RngCore) -> Self;
    fn sample(rng: &mut Script) -> Self;
    /// `random::try_fill_slice`
    fn fill_fn(v: &mut [Self], rng: &mut Script) -> Result<(), Error>;
    /// `Fill::try_fill` on the wrapper
    fn fill_trait(v: &mut [Self], rng: &mut Script) -> Result<(), Error>;
    /// `random::try_fill_slice` through an unsized RNG
    fn fill_dyn(v: &mut [Self], rng: &mut dyn RngCore) -> Result<(), Error>;
    /// `Rng::fill` on the wrapper (panics on error)
    fn fill_panicking(v: &mut [Self], rng: &mut Script);
}

macro_rules! int_impl {
    ($T: ty, $size: expr, |$x: ident| $digits: expr) => {
        impl Int for $T {
            const SIZE: usize = $size;
            fn bytes(&self) -> Vec<u8> {
                let $x = self;
                $digits.iter().flat_map(|d| d.to_le_bytes()).collect()
            }
            fn zero() -> Self {
                <$T>::ZERO
            }
            fn sentinel() -> Self {
                <$T>::MAX - <$T>::ONE
            }
            fn gen(rng: &mut Script) -> Self {
                rng.gen()
            }
            fn gen_dyn(rng: &mut dyn RngCore) -> Self {
                rng.gen()
            }
            fn sample(rng: &mut Script) -> Self {
                Distribution::<$T>::sample(&Standard, rng)
            }
            fn fill_fn(v: &mut [Self], rng: &mut Script) -> Result<(), Error> {
                random::try_fill_slice(v, rng)
            }
            fn fill_trait(v: &mut [Self], rng: &mut Script) -> Result<(), Error> {
                Fill::try_fill(wrap(v), rng)
            }
            fn fill_dyn(v: &mut [Self], rng: &mut dyn RngCore) -> Result<(), Error> {
                random::try_fill_slice(v, rng)
            }
            fn fill_panicking(v: &mut [Self], rng: &mut Script) {
                rng.fill(wrap(v))
            }
        }
    };
}

int_impl!(BUintD8<1>, 1, |x| x.digits());
int_impl!(BUintD8<3>, 3, |x| x.digits());
int_impl!(BUintD16<3>, 6, |x| x.digits());
int_impl!(BUintD32<3>, 12, |x| x.digits());
int_impl!(BUint<2>, 16, |x| x.digits());
int_impl!(BUint<5>, 40, |x| x.digits());
int_impl!(BIntD8<5>, 5, |x| x.to_bits().digits());
int_impl!(BInt<3>, 24, |x| x.to_bits().digits());
// wider than the 1024-byte group limit, and of a size that is not a multiple of eight
int_impl!(BUint<129>, 1032, |x| x.digits());
int_impl!(BIntD8<205>, 205, |x| x.to_bits().digits());

const LENS: [usize; 6] = [0, 1, 2, 7, 300, 5000];

fn image<T: Int>(v: &[T]) -> Vec<u8> {
    v.iter().flat_map(|x| x.bytes()).collect()
}

/// The three fallible entry points, selected round-robin.
fn fill_by<T: Int>(which: usize, v: &mut [T], rng: &mut Script) -> Result<(), Error> {
    match which % 3 {
        0 => T::fill_fn(v, rng),
        1 => T::fill_trait(v, rng),
        _ => T::fill_dyn(v, rng),
    }
}

/// Request sizes of a fault-free fill of `n` elements, as promised by the rewrite.
fn promised_sizes<T: Int>(n: usize) -> Vec<usize> {
    if n == 0 {
        return Vec::new();
    }
    match REQUESTS {
        Requests::Single => vec![n * T::SIZE],
        Requests::ElementGroups => {
            let mut g = core::cmp::max(1, 1024 / T::SIZE);
            if g >= 8 {
                g -= g % 8;
            }
            let mut out = Vec::new();
            let mut left = n;
            while left > 0 {
                let take = core::cmp::min(g, left);
                out.push(take * T::SIZE);
                left -= take;
            }
            out
        }
    }
}

/// Interesting logical request numbers among `c` requests.
fn picks(c: usize) -> Vec<usize> {
    let mut v = vec![0, 1, c / 2, c.saturating_sub(1)];
    v.retain(|&k| k < c);
    v.sort_unstable();
    v.dedup();
    v
}

fn check_after_err<T: Int>(v: &[T], ctx: &str) {
    match ON_ERR {
        OnErr::Unspecified => {}
        OnErr::Zeroed => assert!(v.iter().all(|x| *x == T::zero()), "{ctx}: slice not zeroed after Err"),
        OnErr::Untouched => {
            assert!(v.iter().all(|x| *x == T::sentinel()), "{ctx}: slice modified although Err")
        }
    }
}

// ------------------------------------------------------------------------------------------------
// Checks.
// ------------------------------------------------------------------------------------------------

/// `gen`: the integer is the next SIZE stream bytes in little-endian order; the cursor moves by SIZE.
fn check_gen<T: Int>() {
    assert_eq!(core::mem::size_of::<T>(), T::SIZE);
    let s = T::SIZE;
    for start in [0usize, 3, 1021] {
        let mut rng = Script::new(start);
        for i in 0..9 {
            let x = match i % 3 {
                0 => T::gen(&mut rng),
                1 => T::gen_dyn(&mut rng),
                _ => T::sample(&mut rng),
            };
            assert_eq!(x.bytes(), rng.bytes(i * s, (i + 1) * s), "{NAME}: gen #{i}");
            assert_eq!(rng.position(), (i + 1) * s, "{NAME}: cursor after gen #{i}");
        }
        assert_eq!(rng.kept, rng.bytes(0, 9 * s));
        // interleaving with other consumers of the same stream
        let w = rng.next_u32();
        assert_eq!(w.to_le_bytes(), rng.bytes(9 * s, 9 * s + 4));
        let x = T::gen(&mut rng);
        assert_eq!(x.bytes(), rng.bytes(9 * s + 4, 10 * s + 4));
    }
}

/// Slice fill == element-wise `gen` (values and cursor) on a fault-free stream, for every entry
/// point, and the byte image of the slice is the stream prefix.
fn check_fill_equiv<T: Int>(lens: &[usize]) {
    let s = T::SIZE;
    for &n in lens {
        for start in [0usize, 5] {
            let mut by_elem = Script::new(start);
            let expect: Vec<T> = (0..n).map(|_| T::gen(&mut by_elem)).collect();
            assert_eq!(by_elem.position(), n * s);
            assert_eq!(image(&expect), by_elem.bytes(0, n * s));

            for which in 0..4 {
                let mut rng = Script::new(start);
                // one spare element on each side: the fill must not touch them, and the filled part
                // starts at an element offset of one
                let mut buf = vec![T::sentinel(); n + 2];
                {
                    let v = &mut buf[1..n + 1];
                    if which == 3 {
                        T::fill_panicking(v, &mut rng);
                    } else {
                        fill_by(which, v, &mut rng).expect("fault-free fill failed");
                    }
                }
                let ctx = format!("{NAME}: len {n}, entry point {which}");
                assert_eq!(buf[0], T::sentinel(), "{ctx}: wrote before the slice");
                assert_eq!(buf[n + 1], T::sentinel(), "{ctx}: wrote past the slice");
                let v = &buf[1..n + 1];
                assert!(v == &expect[..], "{ctx}: differs from element-wise generation");
                assert_eq!(rng.position(), n * s, "{ctx}: cursor");
                assert_eq!(image(v), rng.bytes(0, n * s), "{ctx}: byte image");
                assert_eq!(rng.kept, rng.bytes(0, n * s), "{ctx}: delivered bytes");
                assert_eq!(rng.sizes, promised_sizes::<T>(n), "{ctx}: request sizes");
                if n == 0 {
                    assert_eq!(rng.req, 0, "{ctx}: RNG called for an empty slice");
                }
                for &r in &rng.sizes {
                    assert!(r > 0 && r % s == 0, "{ctx}: request of {r} bytes");
                }
                // the stream continues right after the slice
                let next = T::gen(&mut rng);
                assert_eq!(next.bytes(), rng.bytes(n * s, (n + 1) * s));
            }
        }
    }
}

/// A non-transient failure of any request is returned as `Err` with the RNG's own error, at once.
fn check_hard_errors<T: Int>(lens: &[usize]) {
    let mut which = 0;
    for &n in lens {
        if n == 0 {
            continue;
        }
        let base = promised_sizes::<T>(n).len();
        for k in picks(base) {
            for code in HARD_CODES {
                for (scribble, consume) in MODES {
                    which += 1;
                    let ctx = format!("{NAME}: len {n}, request {k}, code {code}, {scribble:?}/{consume}");
                    let mut rng = Script::with_faults(1, [(k, Fault { code, scribble, consume })]);
                    let mut v = vec![T::sentinel(); n];
                    let e = match fill_by(which, &mut v, &mut rng) {
                        Ok(()) => panic!("{ctx}: RNG failure turned into Ok"),
                        Err(e) => e,
                    };
                    assert_eq!(code_of(&e), code, "{ctx}: wrong error returned");
                    assert_eq!(rng.req, k + 1, "{ctx}: requests after a hard failure");
                    check_after_err(&v, &ctx);
                }
            }
            // `Rng::fill` has no way to report the error: it must panic
            let mut rng = Script::with_faults(
                1,
                [(k, Fault { code: EIO, scribble: Scribble::Half, consume: false })],
            );
            let mut v = vec![T::sentinel(); n];
            let r = catch_unwind(AssertUnwindSafe(|| T::fill_panicking(&mut v, &mut rng)));
            assert!(r.is_err(), "{NAME}: Rng::fill returned normally after a hard failure");
        }
    }
}

/// Transient failures (EINTR / EAGAIN).
fn check_transient<T: Int>(lens: &[usize]) {
    let s = T::SIZE;
    let mut which = 0;
    for &n in lens {
        if n == 0 {
            continue;
        }
        let base = promised_sizes::<T>(n).len();
        let mut by_elem = Script::new(2);
        let fault_free: Vec<T> = (0..n).map(|_| T::gen(&mut by_elem)).collect();

        for k in picks(base) {
            for (scribble, consume) in MODES {
                if SLICE_RETRIES == 0 {
                    // no retry path: a transient error is an error like any other
                    for code in [EINTR, EAGAIN] {
                        which += 1;
                        let ctx = format!("{NAME}: len {n}, request {k}, code {code}");
                        let mut rng = Script::with_faults(2, [(k, Fault { code, scribble, consume })]);
                        let mut v = vec![T::sentinel(); n];
                        let e = match fill_by(which, &mut v, &mut rng) {
                            Ok(()) => panic!("{ctx}: RNG failure turned into Ok"),
                            Err(e) => e,
                        };
                        assert_eq!(code_of(&e), code, "{ctx}");
                        assert_eq!(rng.req, k + 1, "{ctx}");
                        check_after_err(&v, &ctx);
                    }
                    continue;
                }

                // m transient failures of logical request k, then success
                for m in [1, 2, SLICE_RETRIES] {
                    which += 1;
                    let ctx = format!("{NAME}: len {n}, request {k}, {m} transient, {scribble:?}/{consume}");
                    let faults = (0..m).map(|i| {
                        let code = if (i + which) % 2 == 0 { EINTR } else { EAGAIN };
                        (k + i, Fault { code, scribble, consume })
                    });
                    let mut rng = Script::with_faults(2, faults);
                    let mut v = vec![T::sentinel(); n];
                    fill_by(which, &mut v, &mut rng).unwrap_or_else(|e| panic!("{ctx}: gave up: {e:?}"));
                    assert_eq!(rng.req, base + m, "{ctx}: number of requests");
                    assert_eq!(rng.kept.len(), n * s, "{ctx}: amount of data delivered");
                    assert_eq!(image(&v), rng.kept, "{ctx}: slice holds bytes that were not successfully delivered");
                    if !consume {
                        assert_eq!(rng.position(), n * s, "{ctx}: cursor");
                        assert!(v == fault_free, "{ctx}: differs from the fault-free fill");
                    }
                    // the retried request is the same request: same size as the failed one
                    for i in 0..m {
                        assert_eq!(rng.sizes[k + i], rng.sizes[k + m], "{ctx}: retry changed the request");
                    }
                    let mut sizes = rng.sizes.clone();
                    sizes.drain(k..k + m);
                    assert_eq!(sizes, promised_sizes::<T>(n), "{ctx}: request sizes");
                }

                // one transient failure too many: the LAST error comes back
                {
                    which += 1;
                    let ctx = format!("{NAME}: len {n}, request {k}, retries exhausted");
                    let m = SLICE_RETRIES + 1;
                    let faults = (0..m).map(|i| {
                        let code = if i + 1 == m { EAGAIN } else { EINTR };
                        (k + i, Fault { code, scribble, consume })
                    });
                    let mut rng = Script::with_faults(2, faults);
                    let mut v = vec![T::sentinel(); n];
                    let e = match fill_by(which, &mut v, &mut rng) {
                        Ok(()) => panic!("{ctx}: RNG failure turned into Ok"),
                        Err(e) => e,
                    };
                    assert_eq!(code_of(&e), EAGAIN, "{ctx}: not the last error");
                    assert_eq!(rng.req, k + m, "{ctx}: number of requests");
                    check_after_err(&v, &ctx);
                }

                // transient, transient, then a hard error: returned at once
                for code in HARD_CODES {
                    which += 1;
                    let ctx = format!("{NAME}: len {n}, request {k}, transient then {code}");
                    let faults = [
                        (k, Fault { code: EINTR, scribble, consume }),
                        (k + 1, Fault { code: EAGAIN, scribble, consume }),
                        (k + 2, Fault { code, scribble, consume }),
                    ];
                    let mut rng = Script::with_faults(2, faults);
                    let mut v = vec![T::sentinel(); n];
                    let e = match fill_by(which, &mut v, &mut rng) {
                        Ok(()) => panic!("{ctx}: RNG failure turned into Ok"),
                        Err(e) => e,
                    };
                    assert_eq!(code_of(&e), code, "{ctx}");
                    assert_eq!(rng.req, k + 3, "{ctx}: requests after a hard failure");
                    check_after_err(&v, &ctx);
                }
            }
        }

        // the retry budget belongs to one request: two requests may each use all of it
        if SLICE_RETRIES > 0 && base >= 2 {
            let m = SLICE_RETRIES;
            let last = base - 1;
            let faults = (0..m)
                .map(|i| (i, Fault { code: EINTR, scribble: Scribble::Full, consume: true }))
                .chain((0..m).map(|i| {
                    (last + m + i, Fault { code: EAGAIN, scribble: Scribble::Half, consume: false })
                }));
            let mut rng = Script::with_faults(2, faults);
            let mut v = vec![T::sentinel(); n];
            T::fill_fn(&mut v, &mut rng).expect("per-request budget exceeded?");
            assert_eq!(rng.req, base + 2 * m);
            assert_eq!(rng.kept.len(), n * s);
            assert_eq!(image(&v), rng.kept);
        }
    }
}

fn panic_text(p: Box<dyn std::any::Any + Send>) -> String {
    if let Some(s) = p.downcast_ref::<String>() {
        s.clone()
    } else if let Some(s) = p.downcast_ref::<&'static str>() {
        s.to_string()
    } else {
        String::new()
    }
}

/// `Standard` cannot return an error, so an RNG failure must end in a panic, never in a value.
fn check_standard_failures<T: Int>() {
    let s = T::SIZE;
    for (scribble, consume) in MODES {
        for code in HARD_CODES {
            for entry in 0..3 {
                let mut rng = Script::with_faults(7, [(0, Fault { code, scribble, consume })]);
                let r = catch_unwind(AssertUnwindSafe(|| match entry {
                    0 => T::gen(&mut rng),
                    1 => T::gen_dyn(&mut rng),
                    _ => T::sample(&mut rng),
                }));
                let text = match r {
                    Ok(x) => panic!("{NAME}: Standard returned {x:?} although the RNG failed with {code}"),
                    Err(p) => panic_text(p),
                };
                if PANIC_HAS_CODE {
                    assert!(text.contains(&code.to_string()), "{NAME}: panic message {text:?} lacks code {code}");
                }
                assert_eq!(rng.req, 1, "{NAME}: requests after a hard failure");
            }
        }

        // failure of the second of two integers: the first one is unaffected
        let mut rng = Script::with_faults(7, [(1, Fault { code: EIO, scribble, consume })]);
        let first = T::gen(&mut rng);
        assert_eq!(first.bytes(), rng.bytes(0, s));
        assert!(catch_unwind(AssertUnwindSafe(|| T::gen(&mut rng))).is_err());

        if STD_RETRIES == 0 {
            for code in [EINTR, EAGAIN] {
                let mut rng = Script::with_faults(7, [(0, Fault { code, scribble, consume })]);
                let r = catch_unwind(AssertUnwindSafe(|| T::gen(&mut rng)));
                assert!(r.is_err(), "{NAME}: Standard returned a value although the RNG failed");
                assert_eq!(rng.req, 1);
            }
        } else {
            for m in [1, 2, STD_RETRIES] {
                let faults = (0..m).map(|i| {
                    (i, Fault { code: if i % 2 == 0 { EAGAIN } else { EINTR }, scribble, consume })
                });
                let mut rng = Script::with_faults(7, faults);
                let x = T::gen(&mut rng);
                assert_eq!(rng.req, m + 1);
                assert_eq!(rng.kept.len(), s);
                assert_eq!(x.bytes(), rng.kept, "{NAME}: value holds bytes that were not successfully delivered");
                if !consume {
                    assert_eq!(rng.position(), s);
                    assert_eq!(x.bytes(), rng.bytes(0, s));
                }
                // and the stream goes on normally
                let y = T::gen(&mut rng);
                assert_eq!(y.bytes(), &rng.kept[s..]);
            }
            let m = STD_RETRIES + 1;
            let faults = (0..m).map(|i| (i, Fault { code: EINTR, scribble, consume }));
            let mut rng = Script::with_faults(7, faults);
            let r = catch_unwind(AssertUnwindSafe(|| T::gen(&mut rng)));
            assert!(r.is_err(), "{NAME}: Standard returned a value although every attempt failed");
            assert_eq!(rng.req, m);
            // transient then hard
            let faults = [
                (0, Fault { code: EINTR, scribble, consume }),
                (1, Fault { code: CUSTOM, scribble, consume }),
            ];
            let mut rng = Script::with_faults(7, faults);
            let r = catch_unwind(AssertUnwindSafe(|| T::gen(&mut rng)));
            assert!(r.is_err());
            assert_eq!(rng.req, 2);
        }
    }
}

/// The scripted RNG itself: infallible methods panic at a scheduled fault, and share the cursor.
#[test]
fn script_selfcheck() {
    let mut rng = Script::with_faults(0, [(2, Fault { code: EIO, scribble: Scribble::None, consume: false })]);
    let a = rng.next_u32();
    let b = rng.next_u64();
    assert_eq!(a.to_le_bytes(), rng.bytes(0, 4));
    assert_eq!(b.to_le_bytes(), rng.bytes(4, 12));
    assert!(catch_unwind(AssertUnwindSafe(|| rng.next_u32())).is_err());
    let mut buf = [0u8; 5];
    rng.fill_bytes(&mut buf);
    assert_eq!(buf, rng.bytes(12, 17));
    rng.faults.insert(4, Fault { code: EINTR, scribble: Scribble::Half, consume: true });
    let mut buf = [0u8; 5];
    let e = rng.try_fill_bytes(&mut buf).unwrap_err();
    assert_eq!(e.raw_os_error(), Some(4));
    assert_eq!(&buf[..3], rng.bytes(17, 20));
    assert_eq!(rng.position(), 20);
    assert_eq!(rng.kept.len(), 17);
    assert_eq!(err(INTERNAL).raw_os_error(), None);
    assert_eq!(err(CUSTOM).raw_os_error(), None);
    assert_eq!(err(EAGAIN).raw_os_error(), Some(11));
    // primitives drawn through `Standard` use the same cursor
    let mut rng = Script::new(0);
    let x: u64 = rng.gen();
    assert_eq!(x.to_le_bytes(), rng.bytes(0, 8));
}

macro_rules! suite {
    ($name: ident, $T: ty, $lens: expr) => {
        mod $name {
            use super::*;

            #[test]
            fn gen() {
                check_gen::<$T>();
            }

            #[test]
            fn fill_equals_elementwise() {
                check_fill_equiv::<$T>(&$lens);
            }

            #[test]
            fn hard_errors() {
                check_hard_errors::<$T>(&$lens);
            }

            #[test]
            fn transient_errors() {
                check_transient::<$T>(&$lens);
            }

            #[test]
            fn standard_failures() {
                check_standard_failures::<$T>();
            }
        }
    };
}

suite!(buint_d8_1, BUintD8<1>, LENS);
suite!(buint_d8_3, BUintD8<3>, LENS);
suite!(buint_d16_3, BUintD16<3>, LENS);
suite!(buint_d32_3, BUintD32<3>, LENS);
suite!(buint_2, BUint<2>, LENS);
suite!(buint_5, BUint<5>, LENS);
suite!(bint_d8_5, BIntD8<5>, LENS);
suite!(bint_3, BInt<3>, LENS);
suite!(buint_129, BUint<129>, [0, 1, 2, 7, 300]);
suite!(bint_d8_205, BIntD8<205>, [0, 1, 2, 7, 300]);
